#!/usr/bin/env python3
"""run_mutations.py [id ...]: apply every mutation of /verif/selftest/mutations to a scratch copy of /repo's working tree and run
the property's quick check there (never touches /repo). Writes /verif/selftest/RESULTS.md + RESULTS.json. A mutation that is
not reported is a hole in the contracts (or in the engine)."""
import json, os, subprocess, sys, shutil, tempfile
from concurrent.futures import ThreadPoolExecutor
env = dict(os.environ, GOFLAGS="-mod=mod", GOPROXY="off", GOSUMDB="off", GOTOOLCHAIN="local")
idx = json.load(open("/verif/selftest/mutations/index.json"))
want = set(sys.argv[1:])
def one(m):
    if want and m["id"] not in want: return None
    t = tempfile.mkdtemp(prefix="mutrun_")
    try:
        subprocess.run(["rsync", "-a", "--exclude", ".git", "/repo/", t + "/"], check=True)
        ap = subprocess.run(["git", "apply", f"/verif/selftest/mutations/{m['id']}.diff"], cwd=t, capture_output=True, text=True)
        if ap.returncode != 0:
            return dict(m, applies=False, note=ap.stderr.strip()[:200])
        p = subprocess.run(["/verif/bin/govc", "check", "-property", m["property"], "-tier", "quick", "-repo", t, "-scratch", "-workers", "6"],
                           cwd="/verif", env=env, capture_output=True, text=True)
        lines = [l.strip() for l in p.stdout.splitlines() if l.startswith("  obligation") or l.startswith("  UNBOUND")]
        return dict(m, applies=True, detected="VIOLATION property=" + m["property"] in p.stdout, by=[l[:200] for l in lines][:3])
    finally:
        shutil.rmtree(t)
with ThreadPoolExecutor(max_workers=3) as ex:
    rows = [r for r in ex.map(one, idx) if r]
if want and os.path.exists("/verif/selftest/RESULTS.json"):
    prev = json.load(open("/verif/selftest/RESULTS.json")); new = {r["id"]: r for r in rows}
    rows = [new.pop(r["id"], r) for r in prev] + list(new.values())
json.dump(rows, open("/verif/selftest/RESULTS.json", "w"), indent=1)
with open("/verif/selftest/RESULTS.md", "w") as f:
    f.write("# Engine self-test: deliberate property-breaking edits (tools/make_mutations.py) against the current checks\n\n| mutation | what | reported | by |\n|---|---|---|---|\n")
    for r in rows:
        by = (r.get("by") or [""])[0].replace("|", "/")
        f.write(f"| {r['id']} | {r['what']} | {'yes' if r.get('detected') else ('n/a' if not r.get('applies') else '**NO**')} | {by} |\n")
print("not reported:", [r["id"] for r in rows if r.get("applies") and not r.get("detected")])
