package main

import (
	"regexp"
	"fmt"
	"go/types"
	"sort"
	"strings"
)

type Term = string
type Sort = string

// Decls collects SMT declarations for one verification unit (function). Order matters.
type Decls struct {
	order    []string
	seen     map[string]bool
	fresh    int
	strConst map[string]string // literal -> symbol
	strOrder []string
	axioms   []string
	specAxioms []string // axioms / lemmas of spec files: included in a script only when relevant to it
	axSeen   map[string]bool
	sorts    map[string]bool
	boxed    map[Sort]bool
	notes    []string
}

func newDecls() *Decls {
	d := &Decls{seen: map[string]bool{}, strConst: map[string]string{}, axSeen: map[string]bool{}, sorts: map[string]bool{}, boxed: map[Sort]bool{}}
	return d
}

const prelude = `(declare-sort Str 0)
(declare-sort Unit 0)
(declare-datatypes ((Iface 0)) (((iface_nil) (mk_iface (dyn Int) (pl Int)))))
(declare-datatypes ((Slice 0)) (((mk_slice (sid Int) (soff Int) (slen Int)))))
(declare-fun idx (Slice Int) Int)
(assert (forall ((s Slice) (i Int)) (! (= (idx s i) (+ (soff s) i)) :pattern ((idx s i)))))
(declare-fun implements (Int Int) Bool)
(declare-fun strlen (Str) Int)
(declare-const str_empty Str)
(assert (forall ((s Str)) (! (and (>= (strlen s) 0) (<= (strlen s) 72057594037927936)) :pattern ((strlen s)))))
(assert (forall ((s Str)) (! (= (= (strlen s) 0) (= s str_empty)) :pattern ((strlen s)))))
`

const strCatDecl = `(declare-fun str_cat (Str Str) Str)
(assert (forall ((a Str) (b Str)) (! (= (strlen (str_cat a b)) (+ (strlen a) (strlen b))) :pattern ((str_cat a b)))))`

const strLtDecl = `(declare-fun str_lt (Str Str) Bool)
(assert (forall ((a Str)) (! (not (str_lt a a)) :pattern ((str_lt a a)))))
(assert (forall ((a Str) (b Str) (c Str)) (! (=> (and (str_lt a b) (str_lt b c)) (str_lt a c)) :pattern ((str_lt a b) (str_lt b c)))))
(assert (forall ((a Str) (b Str)) (! (or (str_lt a b) (str_lt b a) (= a b)) :pattern ((str_lt a b)))))`

func (d *Decls) useStrCat() { d.declare("str_cat", strCatDecl) }
func (d *Decls) useStrLt()  { d.declare("str_lt", strLtDecl) }


func (d *Decls) declare(name, decl string) {
	if d.seen[name] {
		return
	}
	d.seen[name] = true
	d.order = append(d.order, decl)
}

func (d *Decls) declSort(s Sort) {
	// user sorts: TP_*, Sv_*, RV etc. Builtins and compound sorts need nothing.
	if s == "Int" || s == "Bool" || s == "Str" || s == "Iface" || s == "Slice" || s == "Unit" || strings.HasPrefix(s, "(") {
		if strings.HasPrefix(s, "(Array ") {
			for _, sub := range arraySorts(s) {
				d.declSort(sub)
			}
		}
		return
	}
	d.declare("sort:"+s, fmt.Sprintf("(declare-sort %s 0)", s))
}

// arraySorts splits "(Array A B)" into A and B.
func arraySorts(s Sort) []Sort {
	if !strings.HasPrefix(s, "(Array ") {
		return nil
	}
	body := s[len("(Array ") : len(s)-1]
	depth := 0
	for i := 0; i < len(body); i++ {
		switch body[i] {
		case '(':
			depth++
		case ')':
			depth--
		case ' ':
			if depth == 0 {
				return []Sort{body[:i], body[i+1:]}
			}
		}
	}
	return nil
}

func (d *Decls) declConst(name string, s Sort) Term {
	d.declSort(s)
	d.declare(name, fmt.Sprintf("(declare-const %s %s)", name, s))
	return name
}

func (d *Decls) declFun(name string, args []Sort, res Sort) {
	for _, a := range args {
		d.declSort(a)
	}
	d.declSort(res)
	d.declare(name, fmt.Sprintf("(declare-fun %s (%s) %s)", name, strings.Join(args, " "), res))
}

func (d *Decls) freshConst(hint string, s Sort) Term {
	d.fresh++
	name := fmt.Sprintf("%s!%d", sanitize(hint), d.fresh)
	return d.declConst(name, s)
}

func (d *Decls) axiom(a string) {
	if d.axSeen[a] {
		return
	}
	d.axSeen[a] = true
	d.axioms = append(d.axioms, a)
}

// specAxiom records an axiom or lemma of a spec file. It goes into a script only if every spec / pure-method function
// it talks about also occurs in the rest of that script (relevance filter: quantified facts about unrelated
// vocabulary only cost solver time).
func (d *Decls) specAxiom(a string) {
	if d.axSeen[a] {
		return
	}
	d.axSeen[a] = true
	d.specAxioms = append(d.specAxioms, a)
}

var specSymRe = regexp.MustCompile(`\b(sf_|pm_)[A-Za-z0-9_]+`)

func (d *Decls) strLit(lit string) Term {
	if lit == "" {
		return "str_empty"
	}
	if s, ok := d.strConst[lit]; ok {
		return s
	}
	name := fmt.Sprintf("str_%d_%s", len(d.strConst), sanitize(trunc(lit, 16)))
	d.strConst[lit] = name
	d.strOrder = append(d.strOrder, lit)
	d.declConst(name, "Str")
	return name
}

func trunc(s string, n int) string {
	if len(s) > n {
		return s[:n]
	}
	return s
}

func sanitize(s string) string {
	var b strings.Builder
	for _, r := range s {
		switch {
		case r >= 'a' && r <= 'z', r >= 'A' && r <= 'Z', r >= '0' && r <= '9', r == '_':
			b.WriteRune(r)
		default:
			b.WriteByte('_')
		}
	}
	if b.Len() == 0 {
		return "x"
	}
	return b.String()
}

func sortID(s Sort) string {
	r := strings.NewReplacer("(", "", ")", "", " ", "_")
	return r.Replace(s)
}

func (d *Decls) box(s Sort, t Term) Term {
	if s == "Int" {
		return t
	}
	d.ensureBox(s)
	return app("box_"+sortID(s), t)
}

func (d *Decls) unbox(s Sort, t Term) Term {
	if s == "Int" {
		return t
	}
	d.ensureBox(s)
	return app("unbox_"+sortID(s), t)
}

func (d *Decls) ensureBox(s Sort) {
	if d.boxed[s] {
		return
	}
	d.boxed[s] = true
	id := sortID(s)
	d.declFun("box_"+id, []Sort{s}, "Int")
	d.declFun("unbox_"+id, []Sort{"Int"}, s)
	d.axiom(fmt.Sprintf("(forall ((x %s)) (! (= (unbox_%s (box_%s x)) x) :pattern ((box_%s x))))", s, id, id, id))
}

// script renders the full SMT-LIB text: prelude, declarations, axioms, string facts, assumptions, negated goal.
func (d *Decls) script(assumptions []Term, goal Term, comment string) string {
	var b strings.Builder
	b.WriteString("; " + strings.ReplaceAll(comment, "\n", "\n; ") + "\n")
	b.WriteString(prelude)
	for _, x := range d.order {
		b.WriteString(x)
		b.WriteByte('\n')
	}
	if len(d.strOrder) > 0 {
		names := []string{"str_empty"}
		for _, lit := range d.strOrder {
			names = append(names, d.strConst[lit])
			fmt.Fprintf(&b, "(assert (= (strlen %s) %d))\n", d.strConst[lit], len(lit))
		}
		if len(names) > 1 {
			fmt.Fprintf(&b, "(assert (distinct %s))\n", strings.Join(names, " "))
		}
		// lexicographic order between literals
		var lits []string
		if d.seen["str_lt"] {
			lits = append(lits, d.strOrder...)
		}
		sort.Strings(lits)
		for i := 0; i+1 < len(lits); i++ {
			fmt.Fprintf(&b, "(assert (str_lt %s %s))\n", d.strConst[lits[i]], d.strConst[lits[i+1]])
		}
		if len(lits) > 0 {
			fmt.Fprintf(&b, "(assert (str_lt str_empty %s))\n", d.strConst[lits[0]])
		}
	}
	for _, a := range d.axioms {
		fmt.Fprintf(&b, "(assert %s)\n", a)
	}
	if len(d.specAxioms) > 0 {
		var rest strings.Builder
		for _, a := range d.axioms {
			rest.WriteString(a)
			rest.WriteByte('\n')
		}
		for _, a := range assumptions {
			rest.WriteString(a)
			rest.WriteByte('\n')
		}
		rest.WriteString(goal)
		used := map[string]bool{}
		for _, m := range specSymRe.FindAllString(rest.String(), -1) {
			used[m] = true
		}
		for _, a := range d.specAxioms {
			ok := true
			for _, m := range specSymRe.FindAllString(a, -1) {
				if !used[m] {
					ok = false
					break
				}
			}
			if ok {
				fmt.Fprintf(&b, "(assert %s)\n", a)
			}
		}
	}
	for _, a := range assumptions {
		if a == "true" {
			continue
		}
		fmt.Fprintf(&b, "(assert %s)\n", a)
	}
	if goal != "" {
		fmt.Fprintf(&b, "(assert (not %s))\n", goal)
	}
	b.WriteString("(check-sat)\n")
	return b.String()
}

func app(f string, args ...Term) Term {
	if len(args) == 0 {
		return f
	}
	return "(" + f + " " + strings.Join(args, " ") + ")"
}

func and(ts ...Term) Term {
	var xs []Term
	for _, t := range ts {
		if t == "true" || t == "" {
			continue
		}
		if t == "false" {
			return "false"
		}
		xs = append(xs, t)
	}
	switch len(xs) {
	case 0:
		return "true"
	case 1:
		return xs[0]
	}
	return app("and", xs...)
}

func or(ts ...Term) Term {
	var xs []Term
	for _, t := range ts {
		if t == "false" || t == "" {
			continue
		}
		if t == "true" {
			return "true"
		}
		xs = append(xs, t)
	}
	switch len(xs) {
	case 0:
		return "false"
	case 1:
		return xs[0]
	}
	return app("or", xs...)
}

func not(t Term) Term {
	switch t {
	case "true":
		return "false"
	case "false":
		return "true"
	}
	if strings.HasPrefix(t, "(not ") && balanced(t[5:len(t)-1]) {
		return t[5 : len(t)-1]
	}
	return app("not", t)
}

func balanced(s string) bool {
	depth := 0
	for i := 0; i < len(s); i++ {
		switch s[i] {
		case '(':
			depth++
		case ')':
			depth--
			if depth < 0 {
				return false
			}
		case ' ':
			if depth == 0 {
				return false
			}
		}
	}
	return depth == 0
}

func implies(a, b Term) Term {
	if a == "true" {
		return b
	}
	if a == "false" || b == "true" {
		return "true"
	}
	return app("=>", a, b)
}

func eq(a, b Term) Term {
	if a == b {
		return "true"
	}
	return app("=", a, b)
}

func intLit(n int64) Term {
	if n < 0 {
		return fmt.Sprintf("(- %d)", -n)
	}
	return fmt.Sprintf("%d", n)
}

// ---- Go types to sorts ----

type TypeTable struct {
	ids   map[string]int
	names []string
	types []types.Type
}

func newTypeTable() *TypeTable { return &TypeTable{ids: map[string]int{}} }

func (tt *TypeTable) id(t types.Type) int {
	t = types.Unalias(t)
	k := types.TypeString(t, nil)
	if id, ok := tt.ids[k]; ok {
		return id
	}
	id := len(tt.names) + 1
	tt.ids[k] = id
	tt.names = append(tt.names, k)
	tt.types = append(tt.types, t)
	return id
}

func isOpaqueStruct(t types.Type) (Sort, bool) {
	if n, ok := types.Unalias(t).(*types.Named); ok && n.Obj().Pkg() != nil {
		switch n.Obj().Pkg().Path() + "." + n.Obj().Name() {
		case "reflect.Value":
			return "RV", true
		case "reflect.StructField":
			return "RSF", true
		case "reflect.Method":
			return "RMethod", true
		case "reflect.StructTag":
			return "Str", true
		}
	}
	return "", false
}

// sortOf maps a Go type to its SMT sort.
func sortOf(t types.Type) Sort {
	if s, ok := isOpaqueStruct(t); ok {
		return s
	}
	switch u := types.Unalias(t).(type) {
	case *types.TypeParam:
		return "TP_" + sanitize(u.Obj().Name())
	case *types.Named:
		if _, ok := u.Underlying().(*types.Struct); ok {
			return "Sv_" + sanitize(u.Obj().Name())
		}
		return sortOf(u.Underlying())
	case *types.Basic:
		switch {
		case u.Info()&types.IsBoolean != 0:
			return "Bool"
		case u.Info()&types.IsInteger != 0:
			return "Int"
		case u.Info()&types.IsString != 0:
			return "Str"
		case u.Kind() == types.UnsafePointer, u.Kind() == types.UntypedNil:
			return "Int"
		case u.Info()&types.IsFloat != 0:
			return "Real"
		}
		return "Int"
	case *types.Pointer, *types.Map, *types.Signature, *types.Chan:
		return "Int"
	case *types.Interface:
		return "Iface"
	case *types.Slice:
		return "Slice"
	case *types.Struct:
		if u.NumFields() == 0 {
			return "Unit"
		}
		return "Sv_anon"
	case *types.Array:
		return "Int" // only ever behind a pointer; the value is the backing id
	case *types.Tuple:
		return "Tuple"
	}
	return "Int"
}

// constArray renders the array that maps every index to v. Solvers accept (as const ..) only for values of
// interpreted sorts; for uninterpreted constants (zero of a type parameter, the empty string) a named array with a
// defining axiom is used instead.
func (d *Decls) constArray(idxSort, elemSort Sort, v Term) Term {
	switch {
	case elemSort == "Int" || elemSort == "Bool" || elemSort == "Real":
		return fmt.Sprintf("((as const (Array %s %s)) %s)", idxSort, elemSort, v)
	case v == "iface_nil" || v == "(mk_slice 0 0 0)" || strings.HasPrefix(v, "((as const"):
		return fmt.Sprintf("((as const (Array %s %s)) %s)", idxSort, elemSort, v)
	}
	name := "constarr_" + sortID(idxSort) + "_" + sortID(elemSort) + "_" + sanitize(v)
	arrSort := fmt.Sprintf("(Array %s %s)", idxSort, elemSort)
	d.declConst(name, arrSort)
	d.axiom(fmt.Sprintf("(forall ((ci %s)) (! (= (select %s ci) %s) :pattern ((select %s ci))))", idxSort, name, v, name))
	return name
}

func zeroOf(s Sort, d *Decls) Term {
	switch s {
	case "Int":
		return "0"
	case "Bool":
		return "false"
	case "Str":
		return "str_empty"
	case "Iface":
		return "iface_nil"
	case "Slice":
		return "(mk_slice 0 0 0)"
	case "Real":
		return "0.0"
	}
	name := "zero_" + sortID(s)
	return d.declConst(name, s)
}
