#!/usr/bin/env python3
"""keep_seed2.py <seed_out_dir> <seed-id> <property> [more...]: like keep_seed.py but never touches /repo: everything runs on
scratch copies of /repo's working tree under /tmp (removed afterwards). Confirms: builds, existing suite passes with the
change, demo fails with it and passes without it; runs the quick checks of the given properties on the changed copy."""
import json, os, subprocess, sys, shutil, tempfile
env = dict(os.environ, GOFLAGS="-mod=mod", GOPROXY="off", GOSUMDB="off", GOTOOLCHAIN="local")
def sh(cmd, cwd, timeout=1800):
    p = subprocess.run(cmd, shell=True, cwd=cwd, env=env, capture_output=True, text=True, timeout=timeout)
    return p.returncode, p.stdout + p.stderr
d, sid, props = sys.argv[1].rstrip("/"), sys.argv[2], sys.argv[3:]
meta = json.load(open(f"{d}/meta.json"))
demo_rel = meta["demo_test_path"]; demo_src = f"{d}/{os.path.basename(demo_rel)}"
pkg = "./" + os.path.dirname(demo_rel)
def scratch():
    t = tempfile.mkdtemp(prefix="seedscratch_")
    subprocess.run(["rsync", "-a", "--exclude", ".git", "/repo/", t + "/"], check=True)
    return t
res = {"seed": d, "property": props}
a = scratch(); b = scratch()
try:
    rc, o = sh(f"git apply {d}/patch.diff", a); assert rc == 0, o
    rc, o = sh("go build ./... && go test -vet=off -count=1 ./... 2>&1 | grep -v 'no test files'", a)
    res["suite_with_change"] = "pass" if rc == 0 and "FAIL" not in o else "FAIL"
    for t in (a, b):
        os.makedirs(os.path.dirname(f"{t}/{demo_rel}"), exist_ok=True); shutil.copy(demo_src, f"{t}/{demo_rel}")
    rc, o = sh(f"go test -vet=off -timeout 180s -count=1 {pkg}", a)
    res["demo_with_change"] = "fails (as required)" if rc != 0 else "PASSES (bad seed)"
    rc, o = sh(f"go test -vet=off -timeout 180s -count=1 {pkg}", b)
    res["demo_without_change"] = "passes (as required)" if rc == 0 else "FAILS (bad seed): " + o[-300:]
    os.remove(f"{a}/{demo_rel}")
    res["checks"] = {}
    for p in props:
        rc, o = sh(f"/verif/bin/govc check -property {p} -tier quick -repo {a} -scratch", "/verif")
        lines = [l.strip() for l in o.splitlines() if l.startswith("VIOLATION") or l.startswith("  obligation") or l.startswith("  UNBOUND")]
        res["checks"][p] = {"exit": rc, "lines": [v[:300] for v in lines]}
finally:
    shutil.rmtree(a); shutil.rmtree(b)
ok = res["suite_with_change"] == "pass" and res["demo_with_change"].startswith("fails") and res["demo_without_change"].startswith("passes")
print(json.dumps({k: res[k] for k in ("suite_with_change", "demo_with_change", "demo_without_change")}))
if not ok:
    print("NOT KEPT"); sys.exit(1)
lines = [l for c in res["checks"].values() for l in c["lines"]]
det = any(c["exit"] != 0 for c in res["checks"].values())
obl = [l for l in lines if l.startswith("obligation")]; unb = [l for l in lines if l.startswith("UNBOUND")]
meta["source"] = "independent sub-agent given only the property text and a scratch worktree without /verif or the contract files"
meta["confirmed_by_main_session"] = res
meta["detected"] = det
meta["detected_by"] = (obl or unb)[:6]
meta["detection_kind"] = "semantic (named obligation fails)" if obl else ("structural (code left the contracted subset: UNBOUND)" if unb else "none")
out = f"/verif/seeded/{sid}"; os.makedirs(out, exist_ok=True)
shutil.copy(f"{d}/patch.diff", out); shutil.copy(demo_src, out)
json.dump(meta, open(f"{out}/meta.json", "w"), indent=1)
print("kept", out, "detected" if det else "MISSED", meta["detection_kind"])
for l in meta["detected_by"]: print("  ", l[:200])
