#!/usr/bin/env python3
"""make_benign.py: the must-pass corpus /verif/selftest/benign/*.diff: semantics-preserving edits of functions under contract
(renamed locals, an extra log line, reordered independent statements, a temporary variable, an equivalent condition).
tools/run_benign.py applies each to a scratch copy and demands that the property's check stays silent."""
import json, os, subprocess, shutil, tempfile
B = [
 ("C03-b01","C03","container/factory/factory.go",[("exposedComponent","exposedMeta")],"local variable renamed in doCreateComponent / getEarlyBeanReference"),
 ("C05-b01","C05","container/factory/post_processor_registration_delegate.go",[("\tf.logger().Tracef(\"start initialize component '%s'\", name)\n","\tf.logger().Tracef(\"start initialize component '%s'\", name)\n\tf.logger().Debugf(\"initializing %s\", name)\n")],"extra log line in InitializeComponent"),
 ("C09-b01","C09","container/processors/value_aware_post_processors.go",[("\t\tif prop.TagVal == \"\" {","\t\tif len(prop.TagVal) == 0 {")],"equivalent emptiness test"),
 ("C04-b01","C04","container/support/singleton_component_registry.go",[("\tr.earlySingletonObjects.Delete(name)\n\tr.singletonFactories.Delete(name)\n\tr.logger().Tracef(\"put singleton","\tr.singletonFactories.Delete(name)\n\tr.earlySingletonObjects.Delete(name)\n\tr.logger().Tracef(\"put singleton")],"two independent deletes reordered in AddSingleton"),
 ("C13-b01","C13","app/app.go",[("\t\trunner := runners[i]\n","\t\tcurrent := runners[i]\n\t\trunner := current\n")],"temporary variable in callRunners"),
 ("C08-b01","C08","container/processors/dependency_further_matching_processors.go",[("dependencies, err := filterDependencies(prop, prop.Injects)","candidates := prop.Injects\n\t\tdependencies, err := filterDependencies(prop, candidates)")],"argument through a temporary"),
 ("C19-b01","C19","component_definition/arg.go",[("\tspIdx := strings.Index(exp, argExpSep)\n\t\tif spIdx == -1 {","\tspIdx := strings.Index(exp, argExpSep)\n\t\tif spIdx < 0 {")],"equivalent comparison with -1"),
 ("C11-b01","C11","component_definition/meta.go",[("\t\tvar base = &Base{\n\t\t\tType:  field.Type,\n\t\t\tValue: value,\n\t\t}","\t\tvar base = &Base{\n\t\t\tValue: value,\n\t\t\tType:  field.Type,\n\t\t}")],"composite literal fields reordered"),
 ("C16-b01","C16","util/el/el.go",[("\t\tr, err := f(e.content(elr))","\t\tinner := e.content(elr)\n\t\tr, err := f(inner)")],"temporary variable in ReplaceAllContent"),
 ("C20-b01","C20","container/factory/post_processor_registration_delegate.go",[("\t\t\t\t\tmu.Lock()\n\t\t\t\t\terrs = append(errs, errors.WithMessage(err, name))\n\t\t\t\t\tmu.Unlock()","\t\t\t\t\twrapped := errors.WithMessage(err, name)\n\t\t\t\t\tmu.Lock()\n\t\t\t\t\terrs = append(errs, wrapped)\n\t\t\t\t\tmu.Unlock()")],"error wrapped before taking the lock"),
 ("C12-b01","C12","util/framework_helper/order_component.go",[("\treturn any(i).(definition.Ordered).Order() < any(j).(definition.Ordered).Order()","\toi := any(i).(definition.Ordered).Order()\n\toj := any(j).(definition.Ordered).Order()\n\treturn oi < oj")],"comparator with temporaries"),
 ("C15-b01","C15","configure/configure.go",[("\tc.loaders = append(c.loaders, loaders...)","\tmerged := append(c.loaders, loaders...)\n\tc.loaders = merged")],"temporary in AddLoaders"),
 ("C06-b01","C06","container/support/component_definition_registry.go",[("\t\tif container.And(opts...)(m) {","\t\taccept := container.And(opts...)\n\t\tif accept(m) {")],"predicate bound to a local first"),
 ("C18-b01","C18","container/processors/validate_aware_post_processors.go",[("\t\t\tvar p = prop.Type\n","\t\t\tp := prop.Type\n")],"short variable declaration"),
 # ---- second batch: functions whose contracts use call-site hooks, ghost traces, measures ----
 ("C05-b02","C05","container/factory/factory.go",[("\t\tf.logger().Tracef(\"inject dependencies for '%s'\", name)\n","\t\tf.logger().Tracef(\"inject %d dependencies for '%s'\", len(properties), name)\n")],"extra len() call in populateComponent (shifts call ordinals)"),
 ("C09-b02","C09","container/factory/factory.go",[("\t\tif p, ok := singleton.(container.DefinitionRegistryPostProcessor); ok {\n\t\t\tf.definitionRegistryPostProcessors = append(f.definitionRegistryPostProcessors, p)\n\t\t}\n\t\tif p, ok := singleton.(container.ComponentFactoryPostProcessor); ok {\n\t\t\tfactoryPostProcessors = append(factoryPostProcessors, p)\n\t\t}\n","\t\tif p, ok := singleton.(container.ComponentFactoryPostProcessor); ok {\n\t\t\tfactoryPostProcessors = append(factoryPostProcessors, p)\n\t\t}\n\t\tif p, ok := singleton.(container.DefinitionRegistryPostProcessor); ok {\n\t\t\tf.definitionRegistryPostProcessors = append(f.definitionRegistryPostProcessors, p)\n\t\t}\n")],"two independent role checks reordered in PrepareComponents (swaps append ordinals)"),
 ("C05-b03","C05","container/factory/post_processor_registration_delegate.go",[("\t\t\tif ok {\n\t\t\t\t_, err := ipb.PostProcessProperties(meta.GetAllProperties(), meta.Raw, name)","\t\t\tif !ok {\n\t\t\t\tcontinue\n\t\t\t}\n\t\t\t{\n\t\t\t\t_, err := ipb.PostProcessProperties(meta.GetAllProperties(), meta.Raw, name)")],"opt-out written as continue (same behaviour as the nested if)"),
 ("C02-b01","C02","container/factory/factory.go",[("\tsharedInstance, err = f.singletonComponentRegistry.GetSingletonOrCreateByFactory(name,\n\t\tcontainer.FuncSingletonFactory(func() (*component_definition.Meta, error) {\n\t\t\treturn f.createComponent(name)\n\t\t}))","\tcreator := container.FuncSingletonFactory(func() (*component_definition.Meta, error) {\n\t\treturn f.createComponent(name)\n\t})\n\tsharedInstance, err = f.singletonComponentRegistry.GetSingletonOrCreateByFactory(name, creator)")],"creating closure bound to a local first"),
 ("C15-b02","C15","configure/binder/viper.go",[("\terr := d.Viper.MergeConfig(bytes.NewBuffer(c))","\tbuf := bytes.NewBuffer(c)\n\terr := d.Viper.MergeConfig(buf)")],"temporary in ViperBinder.SetConfig"),
 ("C02-b02","C02","component_definition/meta.go",[("\t\tif field.Anonymous && field.Tag == \"\" && field.Type.Kind() == reflect.Struct {","\t\tembedded := field.Anonymous && field.Tag == \"\"\n\t\tif embedded && field.Type.Kind() == reflect.Struct {")],"embedded-struct test split over a local"),
]
def main():
    env = dict(os.environ, GOFLAGS="-mod=mod", GOPROXY="off", GOSUMDB="off", GOTOOLCHAIN="local")
    out = "/verif/selftest/benign"; os.makedirs(out, exist_ok=True); index = []
    for bid, prop, path, edits, what in B:
        tmp = tempfile.mkdtemp(prefix="ben_")
        try:
            subprocess.run(["rsync", "-a", "--exclude", ".git", "/repo/", tmp + "/"], check=True)
            subprocess.run("git init -q && git add -A && git -c user.email=a@b -c user.name=x commit -qm base", shell=True, cwd=tmp, check=True)
            src = open(f"{tmp}/{path}").read(); ok = True
            for old, new in edits:
                if old not in src: print(bid, "SKIP: pattern not found"); ok = False; break
                src = src.replace(old, new)
            if not ok: continue
            open(f"{tmp}/{path}", "w").write(src)
            b = subprocess.run("gofmt -l . ; go build ./... 2>&1 | tail -5", shell=True, cwd=tmp, env=env, capture_output=True, text=True)
            if "error" in b.stdout or ".go:" in b.stdout.replace(path,""):
                print(bid, "SKIP: does not build:", b.stdout.strip()[:300]); continue
            t = subprocess.run("go test -vet=off -count=1 ./... 2>&1 | grep -v 'no test files' | grep -v '^ok' | head -3", shell=True, cwd=tmp, env=env, capture_output=True, text=True)
            if t.stdout.strip():
                print(bid, "SKIP: suite fails:", t.stdout.strip()[:200]); continue
            d = subprocess.run(["git", "diff"], cwd=tmp, capture_output=True, text=True).stdout
            open(f"{out}/{bid}.diff", "w").write(d)
            index.append({"id": bid, "property": prop, "file": path, "what": what}); print(bid, "ok")
        finally:
            shutil.rmtree(tmp)
    json.dump(index, open(f"{out}/index.json", "w"), indent=1)
main()
