package main

import (
	"fmt"
	"go/ast"
	"go/token"
	"strings"

	"golang.org/x/tools/go/ssa"
)

// Lockset discipline for thread contracts.
//
//   guarded mu: t1, t2     locations shared between the forked threads, accessed only while mu is held
//   lockinv mu: [l] expr   invariant over guarded locations; holds whenever mu is free
//
// Thread body: every load/store (real or ghost) of a guarded location carries the obligation mu.Held; Lock havocs the
// guarded locations (other threads may have changed them) and assumes the invariant; Unlock must re-establish it; the
// thread must not hold mu when it ends. Parent: the invariant must hold where a thread is forked; guarded locations
// are exempt from the frames-disjoint obligations; after the join they are unknown except for the invariant.

type guardLV struct {
	arr    string
	sort   Sort
	idx    Term // "" = whole array
	perTid bool // the thread's own slot of a per-thread ghost array
	mu     Term
	muExpr ast.Expr
	src    string
}

func heldExpr(mu ast.Expr) ast.Expr {
	return &ast.SelectorExpr{X: mu, Sel: ast.NewIdent("Held")}
}

// initGuards evaluates the guarded targets of the thread under verification in its entry state.
func (vc *VC) initGuards(st *State, env *Env) {
	c := vc.effective
	if c == nil || !c.Thread {
		return
	}
	for _, t := range c.Assigns {
		if t.Guard == nil {
			continue
		}
		mu := env.tr(t.Guard)
		for _, lv := range env.lvals(t.Expr) {
			g := guardLV{arr: lv.Arr, sort: lv.Sort, idx: lv.Idx, mu: mu.T, muExpr: t.Guard, src: t.Src}
			if t.Any {
				g.idx = ""
			}
			g.perTid = g.idx != "" && strings.Contains(g.idx, "tid_self")
			vc.guards = append(vc.guards, g)
		}
	}
	seen := map[Term]bool{}
	for _, g := range vc.guards {
		if !seen[g.mu] {
			seen[g.mu] = true
			st.assume = append(st.assume, not(env.tr(heldExpr(g.muExpr)).T))
		}
	}
}

// locksetCheck: an access to (arr, idx) needs the mutex of every guarded target it may alias.
func (vc *VC) locksetCheck(st *State, arr string, idx Term, instr ssa.Instruction, what string) {
	if len(vc.guards) == 0 {
		return
	}
	for _, g := range vc.guards {
		if g.arr != arr {
			continue
		}
		env := vc.fnEnvNames(st)
		held := env.tr(heldExpr(g.muExpr)).T
		goal := held
		if g.idx != "" && idx != "" {
			goal = implies(eq(idx, g.idx), held)
		}
		site := posString(vc.w, vc.fn.Pos())
		if instr != nil {
			site = vc.siteOf(instr)
		}
		vc.oblige(st, goal, "lockset:"+what+":"+g.src, "thread", site, vc.props(), "access to the shared location "+g.src+" happens while its mutex is held", "")
	}
}

// lockHooks runs around calls of (*sync.Mutex).Lock / Unlock inside a thread with guarded targets.
func (vc *VC) lockHooks(st *State, key string, recv Term, instr ssa.Instruction, before bool) {
	if len(vc.guards) == 0 || vc.effective == nil {
		return
	}
	isLock := key == "(*sync.Mutex).Lock"
	isUnlock := key == "(*sync.Mutex).Unlock"
	if !isLock && !isUnlock {
		return
	}
	if isUnlock && before {
		for _, li := range vc.effective.LockInvs {
			env := vc.fnEnvNames(st)
			if env.tr(li.Mu).T != recv {
				continue
			}
			g := vc.trClause(env, li.Clause)
			vc.oblige(st, g, "lock-invariant-restored:"+li.Clause.Label, "thread", vc.siteOf(instr), clauseProps(li.Clause, vc.props()), li.Clause.Src, "")
		}
	}
	if isLock && !before {
		for _, g := range vc.guards {
			if g.mu != recv {
				continue
			}
			cur := vc.hget(st.heap, g.arr, g.sort)
			switch {
			case g.idx == "":
				vc.havocHeap(st, g.arr, g.sort)
			case g.perTid:
				// other threads' slots may have changed, the own slot has not
				nw := vc.havocHeap(st, g.arr, g.sort)
				st.assume = append(st.assume, eq(app("select", nw, g.idx), app("select", cur, g.idx)))
			default:
				vc.setHeap(st, g.arr, g.sort, app("store", cur, g.idx, vc.d.freshConst("locked", arraySorts(g.sort)[1])))
			}
		}
		for _, li := range vc.effective.LockInvs {
			env := vc.fnEnvNames(st)
			if env.tr(li.Mu).T != recv {
				continue
			}
			st.assume = append(st.assume, vc.trClause(env, li.Clause))
		}
	}
}

// threadEndCheck: a thread must not end while holding a mutex it uses for guarded locations.
func (vc *VC) threadEndCheck(st *State, site string) {
	seen := map[Term]bool{}
	for _, g := range vc.guards {
		if seen[g.mu] {
			continue
		}
		seen[g.mu] = true
		env := vc.fnEnvNames(st)
		vc.oblige(st, not(env.tr(heldExpr(g.muExpr)).T), "mutex-released-at-thread-end", "thread", site, vc.props(), "the thread does not end holding "+exprString(g.muExpr), "")
	}
}

var _ = token.NoPos
var _ = fmt.Sprintf
