// Bounded stand-in (NOT a proof) for the trusted contracts of github.com/go-kid/strings2 used by property C19/C16:
// Split(val, sep, DefaultSplitBlock) and IndexSkipBlocks(val, sep) are run on EVERY string up to a given length over a
// small alphabet and compared with a reference top-level splitter.
//   - never panics, Split returns at least one segment (checked on all strings);
//   - equals the reference on bracket-balanced inputs (where "top-level" is well defined);
//   - on balanced inputs the segments joined by the separator give back the input.
// On unbalanced inputs the library drops or misplaces characters (e.g. "a),(a" -> ["a)," "a"]); nothing is claimed there.
package main

import (
	"encoding/json"
	"flag"
	"fmt"
	"os"
	"strings"

	"github.com/go-kid/strings2"
)

var alphabet = []byte{'a', ',', '=', ' ', '(', ')', '[', ']', '{', '}'}

func balanced(s string) bool {
	var st []byte
	for i := 0; i < len(s); i++ {
		switch s[i] {
		case '(', '[', '{':
			st = append(st, s[i])
		case ')', ']', '}':
			if len(st) == 0 {
				return false
			}
			o := st[len(st)-1]
			st = st[:len(st)-1]
			if (o == '(' && s[i] != ')') || (o == '[' && s[i] != ']') || (o == '{' && s[i] != '}') {
				return false
			}
		}
	}
	return len(st) == 0
}

func refSplit(s string, sep byte) []string {
	var out []string
	depth, start := 0, 0
	for i := 0; i < len(s); i++ {
		switch s[i] {
		case '(', '[', '{':
			depth++
		case ')', ']', '}':
			depth--
		default:
			if s[i] == sep && depth == 0 {
				out = append(out, s[start:i])
				start = i + 1
			}
		}
	}
	return append(out, s[start:])
}

func refIndex(s string, sep byte) int {
	depth := 0
	for i := 0; i < len(s); i++ {
		switch s[i] {
		case '(', '[', '{':
			depth++
		case ')', ']', '}':
			depth--
		default:
			if s[i] == sep && depth == 0 {
				return i
			}
		}
	}
	return -1
}

type result struct {
	MaxLen          int      `json:"max_len"`
	Strings         int      `json:"strings"`
	Balanced        int      `json:"balanced"`
	Panics          int      `json:"panics"`
	EmptyResults    int      `json:"empty_results"`
	Mismatches      int      `json:"mismatches_on_balanced"`
	IndexMismatches int      `json:"index_mismatches_on_balanced"`
	RejoinFailures  int      `json:"rejoin_failures"`
	Examples        []string `json:"examples"`
}

func main() {
	maxLen := flag.Int("n", 5, "maximum string length")
	flag.Parse()
	res := result{MaxLen: *maxLen}
	note := func(f string, a ...any) {
		if len(res.Examples) < 10 {
			res.Examples = append(res.Examples, fmt.Sprintf(f, a...))
		}
	}
	buf := make([]byte, 0, *maxLen)
	var rec func()
	check := func(s string) {
		res.Strings++
		for _, sep := range []byte{',', ' '} {
			var got []string
			var idx int
			func() {
				defer func() {
					if r := recover(); r != nil {
						res.Panics++
						note("panic on %q sep %q: %v", s, string(sep), r)
					}
				}()
				got = strings2.Split(s, string(sep), strings2.DefaultSplitBlock)
				idx = strings2.IndexSkipBlocks(s, string(sep))
			}()
			if len(got) == 0 {
				res.EmptyResults++
				note("no segment for %q sep %q", s, string(sep))
				continue
			}
			if balanced(s) {
				if strings.Join(got, string(sep)) != s {
					res.RejoinFailures++
					note("segments of %q do not rejoin: %q", s, got)
				}
				if sep == ',' {
					res.Balanced++
				}
				want := refSplit(s, sep)
				if strings.Join(got, "\x00") != strings.Join(want, "\x00") {
					res.Mismatches++
					note("Split(%q,%q) = %q, reference %q", s, string(sep), got, want)
				}
				if w := refIndex(s, sep); idx != w {
					res.IndexMismatches++
					note("IndexSkipBlocks(%q,%q) = %d, reference %d", s, string(sep), idx, w)
				}
			}
		}
	}
	rec = func() {
		check(string(buf))
		if len(buf) == *maxLen {
			return
		}
		for _, c := range alphabet {
			buf = append(buf, c)
			rec()
			buf = buf[:len(buf)-1]
		}
	}
	rec()
	json.NewEncoder(os.Stdout).Encode(res)
	if res.Panics+res.EmptyResults+res.Mismatches+res.IndexMismatches+res.RejoinFailures > 0 {
		os.Exit(1)
	}
}
