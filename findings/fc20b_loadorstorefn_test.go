package sync2

// Demonstration of F-C20b: LoadOrStoreFn is a Load followed by a Store, so several concurrent callers on a fresh key can
// all "win" (loaded == false) and each keeps a different value; a load-or-store must let exactly one caller win and
// give everybody the winner's value.

import (
	"sync"
	"sync/atomic"
	"testing"
)

func TestFindingC20bLoadOrStoreFnHasOneWinner(t *testing.T) {
	const callers = 16
	for round := 0; round < 2000; round++ {
		m := New[string, *int]()
		var winners int32
		results := make([]*int, callers)
		start := make(chan struct{})
		var wg sync.WaitGroup
		for i := 0; i < callers; i++ {
			wg.Add(1)
			go func(i int) {
				defer wg.Done()
				<-start
				v, loaded := m.LoadOrStoreFn("k", func() *int { x := i; return &x })
				if !loaded {
					atomic.AddInt32(&winners, 1)
				}
				results[i] = v
			}(i)
		}
		close(start)
		wg.Wait()
		if winners != 1 {
			t.Fatalf("round %d: %d callers won the load-or-store on one fresh key", round, winners)
		}
		for i := 1; i < callers; i++ {
			if results[i] != results[0] {
				t.Fatalf("round %d: callers were given different values for one key", round)
			}
		}
	}
}
