package main

import (
	"bytes"
	"context"
	"fmt"
	"os"
	"os/exec"
	"path/filepath"
	"sort"
	"strings"
	"sync"
	"time"
)

type solverSpec struct {
	name string
	argv func(file string, timeoutS int) []string
	prep func(script string) string
}

var solvers = map[string]solverSpec{
	"z3-new": {name: "z3-new", argv: func(f string, t int) []string { return []string{"z3-new", fmt.Sprintf("-T:%d", t), f} }},
	"z3":     {name: "z3", argv: func(f string, t int) []string { return []string{"z3", fmt.Sprintf("-T:%d", t), f} }},
	// z3-new under a different random seed / arithmetic solver: quantifier instantiation order is sensitive to both, and
	// a query that stalls under the default configuration is usually decided at once by another one
	"z3-new-s1": {name: "z3-new-s1", argv: func(f string, t int) []string {
		return []string{"z3-new", fmt.Sprintf("-T:%d", t), "smt.random_seed=1", "sat.random_seed=1", f}
	}},
	"z3-new-a2": {name: "z3-new-a2", argv: func(f string, t int) []string {
		return []string{"z3-new", fmt.Sprintf("-T:%d", t), "smt.arith.solver=2", f}
	}},
	"cvc5": {name: "cvc5", argv: func(f string, t int) []string {
		return []string{"cvc5", "--lang=smt2", fmt.Sprintf("--tlimit=%d", t*1000), "--enum-inst", f}
	}, prep: func(s string) string { return "(set-logic ALL)\n" + s }},
	"cvc5-fmf": {name: "cvc5-fmf", argv: func(f string, t int) []string {
		return []string{"cvc5", "--lang=smt2", fmt.Sprintf("--tlimit=%d", t*1000), "--finite-model-find", f}
	}, prep: func(s string) string { return "(set-logic ALL)\n" + s }},
	"cvc5-default": {name: "cvc5-default", argv: func(f string, t int) []string {
		return []string{"cvc5", "--lang=smt2", fmt.Sprintf("--tlimit=%d", t*1000), f}
	}, prep: func(s string) string { return "(set-logic ALL)\n" + s }},
}

type solveResult struct {
	status string
	solver string
	ms     int64
	output string
}

func runSolver(sp solverSpec, dir string, id int, script string, timeoutS int) solveResult {
	return runSolverCtx(context.Background(), sp, dir, id, script, timeoutS)
}

func runSolverCtx(parent context.Context, sp solverSpec, dir string, id int, script string, timeoutS int) solveResult {
	if sp.prep != nil {
		script = sp.prep(script)
	}
	file := filepath.Join(dir, fmt.Sprintf("o%d_%s.smt2", id, sp.name))
	if err := os.WriteFile(file, []byte(script), 0o644); err != nil {
		return solveResult{status: "error", solver: sp.name, output: err.Error()}
	}
	defer os.Remove(file)
	argv := sp.argv(file, timeoutS)
	ctx, cancel := context.WithTimeout(parent, time.Duration(timeoutS+5)*time.Second)
	defer cancel()
	cmd := exec.CommandContext(ctx, argv[0], argv[1:]...)
	var out bytes.Buffer
	cmd.Stdout = &out
	cmd.Stderr = &out
	t0 := time.Now()
	_ = cmd.Run()
	ms := time.Since(t0).Milliseconds()
	text := out.String()
	first := ""
	for _, ln := range strings.Split(text, "\n") {
		ln = strings.TrimSpace(ln)
		if ln == "" || strings.HasPrefix(ln, ";") {
			continue
		}
		first = ln
		break
	}
	st := "unknown"
	switch {
	case first == "unsat":
		st = "unsat"
	case first == "sat":
		st = "sat"
	case first == "unknown":
		st = "unknown"
	case parent.Err() != nil:
		st = "cancelled"
	case strings.Contains(first, "timeout") || ctx.Err() != nil:
		st = "timeout"
	case strings.HasPrefix(first, "(error"):
		st = "error"
	}
	return solveResult{status: st, solver: sp.name, ms: ms, output: trunc(text, 2000)}
}

// discharge decides one obligation. z3-new goes first; if it does not answer unsat, cvc5 (enum-inst), z3 4.8 and
// cvc5's finite model finder (a witness search on the same script) run concurrently. Thorough tier: an unsat answer
// must be confirmed by a second, independent back end.
func discharge(o *Obligation, dir string, id int, tier string, timeoutS int) {
	if o.Script == "" {
		return
	}
	if o.Expect == "pathcover" {
		r := runSolver(solvers["z3-new"], dir, id, o.Script, 4)
		o.Status, o.Solver, o.Ms, o.Output = r.status, r.solver, r.ms, fmt.Sprintf("[%s %s %dms]", r.solver, r.status, r.ms)
		return
	}
	if o.Expect == "cover" {
		r := runSolver(solvers["z3-new"], dir, id, o.Script, 3)
		o.Status, o.Solver, o.Ms, o.Output = r.status, r.solver, r.ms, fmt.Sprintf("[%s %s %dms]", r.solver, r.status, r.ms)
		return
	}
	if o.ExpectedToFail && timeoutS > 4 {
		timeoutS = 4
	}
	var results []solveResult
	// fast path: z3-new alone for a few seconds decides almost everything; what it does not decide quickly goes to the
	// race below (which includes z3-new again with the full budget), so an obligation that only another configuration
	// decides does not first wait out z3-new's whole timeout
	fastS := timeoutS
	if fastS > 6 {
		fastS = 6
	}
	first := runSolver(solvers["z3-new"], dir, id, o.Script, fastS)
	results = append(results, first)
	unsatBy := []string{}
	if first.status == "unsat" {
		unsatBy = append(unsatBy, "z3-new")
	}
	needMore := first.status != "sat" && (first.status != "unsat" || tier == "thorough")
	if needMore {
		names := []string{"cvc5", "z3"}
		if first.status != "unsat" {
			names = append(names, "cvc5-fmf", "z3-new-s1", "z3-new-a2")
			if fastS < timeoutS {
				names = append(names, "z3-new")
			}
		} else if tier == "thorough" {
			names = append(names, "z3-new-a2")
		}
		need := 1
		if tier == "thorough" {
			need = 2
		}
		ctx, cancel := context.WithCancel(context.Background())
		ch := make(chan solveResult, len(names))
		for _, n := range names {
			go func(n string) { ch <- runSolverCtx(ctx, solvers[n], dir, id, o.Script, timeoutS) }(n)
		}
		for range names {
			r := <-ch
			if r.status == "cancelled" {
				continue
			}
			results = append(results, r)
			if r.status == "unsat" && r.solver != "cvc5-fmf" {
				unsatBy = append(unsatBy, r.solver)
			}
			if len(unsatBy) >= need || r.status == "sat" {
				cancel() // decided: the remaining solvers are not needed
			}
		}
		cancel()
	}
	var total int64
	var outs []string
	final := "unknown"
	for _, r := range results {
		total += r.ms
		outs = append(outs, fmt.Sprintf("[%s %s %dms] %s", r.solver, r.status, r.ms, strings.TrimSpace(trunc(r.output, 300))))
		if r.status == "sat" {
			final = "sat"
		}
	}
	need := 1
	if tier == "thorough" {
		need = 2
	}
	if len(unsatBy) >= need && final != "sat" {
		final = "unsat"
	} else if final != "sat" && len(unsatBy) > 0 {
		final = "unconfirmed"
	}
	if final == "unknown" {
		for _, r := range results {
			if r.status == "timeout" {
				final = "timeout"
			}
		}
	}
	o.Status = final
	sort.Strings(unsatBy)
	o.Solver = strings.Join(unsatBy, "+")
	if o.Solver == "" && len(results) > 0 {
		o.Solver = results[0].solver
	}
	o.Ms = total
	o.Output = strings.Join(outs, "\n")
}

// noRetry: corpus runs on scratch copies only need to know THAT something fails; skip the second-chance pass there
var noRetry bool

func dischargeAll(obls []*Obligation, tier string, timeoutS int, workers int) (string, error) {
	dir, err := os.MkdirTemp("", "govc-smt-")
	if err != nil {
		return "", err
	}
	defer os.RemoveAll(dir)
	var wg sync.WaitGroup
	ch := make(chan int)
	for w := 0; w < workers; w++ {
		wg.Add(1)
		go func() {
			defer wg.Done()
			for i := range ch {
				if obls[i].Status == "" {
					discharge(obls[i], dir, i, tier, timeoutS)
				}
			}
		}()
	}
	for i := range obls {
		ch <- i
	}
	close(ch)
	wg.Wait()
	// second chance for queries that only timed out: the first pass saturates every core (and the machine may be busy
	// with other checks), so a query that needs a few seconds alone can miss its budget there. Retry them a few at a
	// time with a doubled budget; an answer found here counts like any other.
	var retry []int
	for i, o := range obls {
		if o.Script != "" && o.Expect == "" && !o.ExpectedToFail && (o.Status == "timeout" || o.Status == "unknown") {
			retry = append(retry, i)
		}
	}
	if len(retry) > 0 && len(retry) <= 24 && !noRetry {
		sem := make(chan struct{}, 3)
		var wg2 sync.WaitGroup
		for _, i := range retry {
			wg2.Add(1)
			sem <- struct{}{}
			go func(i int) {
				defer wg2.Done()
				defer func() { <-sem }()
				prev := obls[i].Output
				discharge(obls[i], dir, i, tier, timeoutS*2)
				obls[i].Output = "[retry after " + trunc(prev, 120) + "]\n" + obls[i].Output
			}(i)
		}
		wg2.Wait()
	}
	return dir, nil
}
