package main

import (
	"regexp"
	"go/ast"
	"fmt"
	"go/constant"
	"go/token"
	"go/types"
	"sort"
	"strings"

	"golang.org/x/tools/go/ssa"
)

type Loc struct {
	Arr    string // heap array (or scalar heap variable when Scalar)
	ESort  Sort   // sort of the content
	Base   Term   // object ref / backing id
	Idx    Term   // absolute element index (IsElem)
	IsElem bool
	Scalar bool
	BaseV  ssa.Value // SSA value of the base (for loop frame analysis)
}

type Val struct {
	T       Term
	Tuple   []Val
	Loc     *Loc
	Typ     types.Type
	Closure *ssa.MakeClosure
	Fn      *ssa.Function
	IsNilC  bool
	Tag     Term // ghost slot tag travelling with a value loaded from a slice element
	Direct  bool // address of a field inside an opaque struct value: T already is the field's value (read-only)
}

type threadRec struct {
	fn    *ssa.Function
	args  []Val
	site  string
	binds []Val
}

type iterInfo struct {
	mapTerm Term
	kSort   Sort
	vSort   Sort
	visited string // heap array name holding the visited set (Array Int (Array K Bool)); index = iterator id
	id      Term
	str     bool
}

type State struct {
	vals      map[ssa.Value]Val
	heap      *Heap
	assume    []Term
	path      []int
	callCount map[string]int
	defers    []*ssa.Defer
	iters     map[ssa.Value]*iterInfo
	threads   []*threadRec
	wgAdded   map[string]Term
	loopHeap  map[*ssa.BasicBlock]*Heap
	names     map[string]ssa.Value // latest SSA value bound to each source variable along the path executed so far
	glocals   map[string]TV // ghost locals of the function under verification
	lp        *lpState // linearizable mode: the candidate linearization point of this path
	loopVariant map[*ssa.BasicBlock]Term // value of the loop's decreases expression at the head of the current iteration
	closOrd   int
	dead      bool
	forked    []*ssa.Go
	joinBase  Term
	pendingHook *ssa.Call
}

func (s *State) clone() *State {
	n := &State{vals: make(map[ssa.Value]Val, len(s.vals)), heap: s.heap.clone(), callCount: map[string]int{}, iters: map[ssa.Value]*iterInfo{},
		wgAdded: map[string]Term{}, loopHeap: map[*ssa.BasicBlock]*Heap{}, closOrd: s.closOrd}
	for k, v := range s.vals {
		n.vals[k] = v
	}
	n.assume = append([]Term{}, s.assume...)
	n.path = append([]int{}, s.path...)
	for k, v := range s.callCount {
		n.callCount[k] = v
	}
	n.defers = append([]*ssa.Defer{}, s.defers...)
	for k, v := range s.iters {
		n.iters[k] = v
	}
	n.threads = append([]*threadRec{}, s.threads...)
	n.pendingHook = s.pendingHook
	n.forked = append([]*ssa.Go{}, s.forked...)
	n.joinBase = s.joinBase
	for k, v := range s.wgAdded {
		n.wgAdded[k] = v
	}
	n.lp = s.lp
	n.glocals = map[string]TV{}
	for k, v := range s.glocals {
		n.glocals[k] = v
	}
	n.names = map[string]ssa.Value{}
	for k, v := range s.names {
		n.names[k] = v
	}
	n.loopVariant = map[*ssa.BasicBlock]Term{}
	for k, v := range s.loopVariant {
		n.loopVariant[k] = v
	}
	for k, v := range s.loopHeap {
		n.loopHeap[k] = v
	}
	return n
}

const tagsSort = "(Array Int (Array Int Int))"

type outOfSubset struct{ msg string }

func (vc *VC) unsupported(instr ssa.Instruction, f string, a ...any) {
	pos := "?"
	if instr != nil {
		pos = posString(vc.w, instr.Pos())
	}
	panic(outOfSubset{fmt.Sprintf("out of subset at %s: %s", pos, fmt.Sprintf(f, a...))})
}

func (vc *VC) setHeap(st *State, name string, s Sort, t Term) {
	vc.hget(st.heap, name, s) // register
	c := vc.d.freshConst(name, s)
	st.assume = append(st.assume, eq(c, t))
	st.heap.cur[name] = c
}

func (vc *VC) havocHeap(st *State, name string, s Sort) Term {
	vc.hget(st.heap, name, s)
	c := vc.d.freshConst(name, s)
	st.heap.cur[name] = c
	if name != "top" {
		if f := vc.wfFact(name, c, s, vc.top(st)); f != "" {
			st.assume = append(st.assume, f)
		}
	}
	return c
}

func (vc *VC) top(st *State) Term { return vc.hget(st.heap, "top", "Int") }

func (vc *VC) alloc(st *State, hint string) Term {
	a := vc.d.freshConst("new_"+hint, "Int")
	st.assume = append(st.assume, app(">", a, vc.top(st)), app(">", a, "0"))
	vc.setHeap(st, "top", "Int", a)
	return a
}

// isPlainStruct: a struct type stored by value whose fields are modelled individually.
func isPlainStruct(t types.Type) bool {
	if _, opaque := isOpaqueStruct(t); opaque {
		return false
	}
	_, ok := types.Unalias(t).Underlying().(*types.Struct)
	return ok
}

func isRefLike(t types.Type) bool {
	switch types.Unalias(t).Underlying().(type) {
	case *types.Pointer, *types.Map, *types.Signature, *types.Chan:
		return true
	}
	return false
}

// assumeAllocated records that a value read from the outside world refers to allocated objects only.
const (
	minInt64 = "(- 9223372036854775808)"
	maxInt64 = "9223372036854775807"
	maxLen   = "72057594037927936" // 2^56: no Go object has more elements than the address space allows
)

// intRange: machine range of an integer type (64-bit platform), or "" when not an integer type.
func intRange(typ types.Type) (lo, hi Term, ok bool) {
	b, isB := types.Unalias(typ).Underlying().(*types.Basic)
	if !isB || b.Info()&types.IsInteger == 0 {
		return "", "", false
	}
	switch b.Kind() {
	case types.Int, types.Int64, types.UntypedInt:
		return minInt64, maxInt64, true
	case types.Int32, types.UntypedRune:
		return "(- 2147483648)", "2147483647", true
	case types.Int16:
		return "(- 32768)", "32767", true
	case types.Int8:
		return "(- 128)", "127", true
	case types.Uint, types.Uint64, types.Uintptr:
		return "0", "18446744073709551615", true
	case types.Uint32:
		return "0", "4294967295", true
	case types.Uint16:
		return "0", "65535", true
	case types.Uint8:
		return "0", "255", true
	}
	return "", "", false
}

func (vc *VC) assumeAllocated(st *State, t Term, typ types.Type) {
	if typ == nil {
		return
	}
	switch sortOf(typ) {
	case "Int":
		if isRefLike(typ) {
			st.assume = append(st.assume, app("<=", t, vc.top(st)), app(">=", t, "0"))
		} else if lo, hi, ok := intRange(typ); ok {
			st.assume = append(st.assume, app("<=", lo, t), app("<=", t, hi))
		}
	case "Slice":
		st.assume = append(st.assume, app("<=", app("sid", t), vc.top(st)), app(">=", app("sid", t), "0"), app(">=", app("slen", t), "0"), app(">=", app("soff", t), "0"),
			implies(eq(app("sid", t), "0"), eq(app("slen", t), "0")), app("<=", app("slen", t), maxLen), app("<=", app("soff", t), maxLen))
	case "Iface":
		st.assume = append(st.assume, implies(not(eq(t, "iface_nil")), app("<=", app("pl", t), vc.top(st))))
	}
}

// ---------- values ----------

func (vc *VC) constVal(c *ssa.Const) Val {
	t := c.Type()
	s := sortOf(t)
	if c.Value == nil {
		return Val{T: zeroOf(s, vc.d), Typ: t, IsNilC: true}
	}
	switch c.Value.Kind() {
	case constant.Bool:
		if constant.BoolVal(c.Value) {
			return Val{T: "true", Typ: t}
		}
		return Val{T: "false", Typ: t}
	case constant.Int:
		if n, ok := constant.Int64Val(c.Value); ok {
			return Val{T: intLit(n), Typ: t}
		}
		// uint64 beyond int64
		return Val{T: c.Value.ExactString(), Typ: t}
	case constant.String:
		return Val{T: vc.d.strLit(constant.StringVal(c.Value)), Typ: t}
	}
	return Val{T: vc.d.freshConst("const", s), Typ: t}
}

func (vc *VC) val(st *State, v ssa.Value) Val {
	switch v := v.(type) {
	case *ssa.Const:
		return vc.constVal(v)
	case *ssa.Function:
		t := vc.funcConst(funcKey(v))
		if !vc.pureAxiomsDone[funcKey(v)] {
			vc.pureAxiomsDone[funcKey(v)] = true
			vc.pureFuncAxiom(st, v, t, nil)
		}
		return Val{T: t, Fn: v, Typ: v.Type()}
	case *ssa.Global:
		gv := v.Object().(*types.Var)
		et := v.Type().(*types.Pointer).Elem()
		return Val{Loc: &Loc{Arr: globalArr(gv), ESort: sortOf(et), Scalar: true}, Typ: v.Type()}
	case *ssa.Builtin:
		return Val{Typ: v.Type()}
	}
	if x, ok := st.vals[v]; ok {
		return x
	}
	vc.unsupported(nil, "use of undefined value %s (%T) in %s", v.Name(), v, vc.key)
	return Val{}
}

func (vc *VC) load(st *State, p Val, instr ssa.Instruction) Term {
	if p.Loc != nil {
		l := p.Loc
		if !l.Scalar {
			vc.locksetCheck(st, l.Arr, l.Base, instr, "read")
		}
		switch {
		case l.Scalar:
			return vc.hget(st.heap, l.Arr, l.ESort)
		case l.IsElem:
			return app("select", app("select", vc.hget(st.heap, l.Arr, elemsSort(l.ESort)), l.Base), l.Idx)
		default:
			return app("select", vc.hget(st.heap, l.Arr, arrSort(l.ESort)), l.Base)
		}
	}
	et, ok := derefType(p.Typ)
	if !ok {
		vc.unsupported(instr, "load through non-pointer")
	}
	vc.locksetCheck(st, cellArr(sortOf(et)), p.T, instr, "read")
	if _, isStruct := types.Unalias(et).Underlying().(*types.Struct); isStruct {
		if _, opaque := isOpaqueStruct(et); !opaque {
			vc.unsupported(instr, "load of whole struct value %v", et)
		}
	}
	s := sortOf(et)
	return app("select", vc.hget(st.heap, cellArr(s), arrSort(s)), p.T)
}

func (vc *VC) store(st *State, p Val, v Term, instr ssa.Instruction) {
	if p.Loc != nil {
		l := p.Loc
		if !l.Scalar {
			vc.locksetCheck(st, l.Arr, l.Base, instr, "write")
		}
		switch {
		case l.Scalar:
			vc.setHeap(st, l.Arr, l.ESort, v)
		case l.IsElem:
			arr := vc.hget(st.heap, l.Arr, elemsSort(l.ESort))
			vc.setHeap(st, l.Arr, elemsSort(l.ESort), app("store", arr, l.Base, app("store", app("select", arr, l.Base), l.Idx, v)))
		default:
			arr := vc.hget(st.heap, l.Arr, arrSort(l.ESort))
			vc.setHeap(st, l.Arr, arrSort(l.ESort), app("store", arr, l.Base, v))
		}
		return
	}
	et, ok := derefType(p.Typ)
	if !ok {
		vc.unsupported(instr, "store through non-pointer")
	}
	s := sortOf(et)
	vc.locksetCheck(st, cellArr(s), p.T, instr, "write")
	arr := vc.hget(st.heap, cellArr(s), arrSort(s))
	vc.setHeap(st, cellArr(s), arrSort(s), app("store", arr, p.T, v))
}

// zeroInit sets all fields of a freshly allocated struct object to their zero values.
func (vc *VC) zeroInit(st *State, ref Term, t types.Type) {
	stt, ok := types.Unalias(t).Underlying().(*types.Struct)
	if !ok {
		return
	}
	external := false
	if n, ok := types.Unalias(t).(*types.Named); ok && n.Obj().Pkg() != nil && !isRepoPkg(n.Obj().Pkg().Path()) {
		external = true // library types are known through their ghost fields only
	}
	for i := 0; i < stt.NumFields() && !external; i++ {
		f := stt.Field(i)
		arr, subobj := fieldArr(t, f)
		if subobj {
			sub := vc.stepField(st.heap, TV{T: ref, S: goSType(types.NewPointer(t))}, i)
			// the embedded sub-object of a fresh object is fresh as well: it is numbered after its parent, and the
			// allocation counter moves past it
			nt := vc.d.freshConst("top_sub", "Int")
			st.assume = append(st.assume, app(">=", sub.T, ref), app(">=", nt, vc.top(st)), app(">=", nt, sub.T))
			vc.setHeap(st, "top", "Int", nt)
			vc.zeroInit(st, sub.T, f.Type())
			continue
		}
		fs := sortOf(f.Type())
		if fs == "Real" {
			continue
		}
		a := vc.hget(st.heap, arr, arrSort(fs))
		st.assume = append(st.assume, eq(app("select", a, ref), zeroOf(fs, vc.d)))
	}
	// ghost fields declared on this type start at their zero too (maps empty)
	if key, named, _ := ownerKeyOf(t); key != "" {
		for _, k := range sortedKeys(vc.specs.GhostFields) {
			gf := vc.specs.GhostFields[k]
			if strings.HasPrefix(k, key+".") {
				e := &Env{vc: vc, pkg: gf.Pkg, vars: map[string]TV{}, heap: st.heap, old: st.heap}
				e.tparams = e.typeArgEnv(named)
				lv := e.ghostLV(gf, TV{T: ref, S: goSType(types.NewPointer(t))}, named)
				gs := arraySorts(lv.Sort)[1]
				a := vc.hget(st.heap, lv.Arr, lv.Sort)
				st.assume = append(st.assume, eq(app("select", a, ref), vc.zeroSpec(gs)))
			}
		}
	}
}

// zeroSpec is the zero of a logical sort (empty map = all false / zero).
func (vc *VC) zeroSpec(s Sort) Term {
	if strings.HasPrefix(s, "(Array ") {
		parts := arraySorts(s)
		return vc.d.constArray(parts[0], parts[1], vc.zeroSpec(parts[1]))
	}
	return zeroOf(s, vc.d)
}

// ---------- obligations ----------

func (vc *VC) oblige(st *State, goal Term, label, kind, site string, props []string, clause, callee string) {
	if kind == "termination" && len(vc.specs.TerminationProps) > 0 {
		props = unionProps(props, vc.specs.TerminationProps)
	}
	if goal == "true" {
		// trivially discharged: still counted (cheap), but no solver call needed
		vc.obls = append(vc.obls, &Obligation{Func: vc.key, Label: label, Kind: kind, Site: site, Props: props, Path: pathString(st.path), Clause: clause, Callee: callee,
			Status: "unsat", Solver: "syntactic", Script: ""})
		return
	}
	vc.flushAxioms()
	assumptions := append(vc.typeFacts(), st.assume...)
	comment := fmt.Sprintf("obligation %s/[%s] kind=%s site=%s path=%s\nclause: %s", shortFuncKey(vc.key), label, kind, site, pathString(st.path), clause)
	sc := vc.d.script(assumptions, goal, comment)
	ob := &Obligation{Func: vc.key, Label: label, Kind: kind, Site: site, Props: props, Path: pathString(st.path), Script: sc, Clause: clause, Callee: callee, Probes: vc.probes}
	if vc.effective != nil {
		ob.Replay = vc.effective.Replay
	}
	vc.obls = append(vc.obls, ob)
}

func (vc *VC) cover(st *State, label, site string, props []string) {
	assumptions := append(vc.typeFacts(), st.assume...)
	sc := vc.d.script(assumptions, "", fmt.Sprintf("cover %s/[%s] site=%s", shortFuncKey(vc.key), label, site))
	vc.obls = append(vc.obls, &Obligation{Func: vc.key, Label: label, Kind: "cover", Site: site, Props: props, Path: pathString(st.path), Script: sc, Expect: "cover"})
}

// pathCover: at the end of a path, ask whether its accumulated assumptions are satisfiable at all. An `unsat` answer means
// everything "proved" on that path was proved vacuously. Dead paths exist legitimately (branches the precondition rules
// out), so this is reported in the evidence (infeasible_paths) for review rather than counted as a failure; it is the
// audit that would have exposed the heap-well-formedness defect (DESIGN 11.5b) at once.
func (vc *VC) pathCover(st *State, site string) {
	if !vc.pathCovers {
		return
	}
	assumptions := append(vc.typeFacts(), st.assume...)
	sc := vc.d.script(assumptions, "", fmt.Sprintf("path cover %s path=%s site=%s", shortFuncKey(vc.key), pathString(st.path), site))
	vc.obls = append(vc.obls, &Obligation{Func: vc.key, Label: "path-reachable", Kind: "cover", Site: site, Props: vc.props(), Path: pathString(st.path), Script: sc, Expect: "pathcover"})
}

func pathString(p []int) string {
	var b strings.Builder
	for i, x := range p {
		if i > 0 {
			b.WriteByte('.')
		}
		fmt.Fprintf(&b, "%d", x)
	}
	return b.String()
}

// ---------- function environment for specs ----------

func (vc *VC) fnEnv(st *State, old *Heap) *Env {
	fn := vc.fn
	e := &Env{vc: vc, vars: map[string]TV{}, heap: st.heap, old: old, tparams: vc.tparamsEnv}
	if vc.contract != nil {
		e.pkg = vc.contract.Pkg
	}
	for _, p := range fn.Params {
		e.vars[p.Name()] = TV{T: st.vals[p].T, S: goSType(p.Type())}
	}
	e.locals = func(ce *Env, name string) (TV, bool) {
		if tv, ok := st.glocals[name]; ok {
			return tv, true
		}
		for _, fv := range fn.FreeVars {
			if fv.Name() == name {
				et, _ := derefType(fv.Type())
				if isPlainStruct(et) {
					return TV{T: st.vals[fv].T, S: goSType(fv.Type())}, true
				}
				s := sortOf(et)
				return TV{T: app("select", vc.hget(ce.heap, cellArr(s), arrSort(s)), st.vals[fv].T), S: goSType(et)}, true
			}
		}
		return TV{}, false
	}
	e.cellPtr = func(name string) (Term, types.Type, bool) {
		for _, fv := range fn.FreeVars {
			if fv.Name() == name {
				if et, ok := derefType(fv.Type()); ok && !isPlainStruct(et) {
					return st.vals[fv].T, et, true
				}
			}
		}
		return "", nil, false
	}
	if vc.effective != nil && vc.effective.Thread {
		e.vars["tid"] = TV{T: vc.d.declConst("tid_self", "Int"), S: stInt}
	}
	if vc.effective != nil && len(vc.effective.Lets) > 0 {
		vc.bindSelf(e)
		vc.bindLetsOld(e, vc.effective)
	}
	return e
}

// ---------- loops ----------

type loopInfo struct {
	header  *ssa.BasicBlock
	blocks  map[*ssa.BasicBlock]bool
	ordinal int
	spec    *LoopSpec
}

func (vc *VC) findLoops() {
	vc.loops = map[*ssa.BasicBlock]*loopInfo{}
	fn := vc.fn
	for _, b := range fn.Blocks {
		for _, s := range b.Succs {
			if s.Dominates(b) {
				li := vc.loops[s]
				if li == nil {
					li = &loopInfo{header: s, blocks: map[*ssa.BasicBlock]bool{s: true}}
					vc.loops[s] = li
				}
				// natural loop: all blocks that reach b without passing through s
				stack := []*ssa.BasicBlock{b}
				for len(stack) > 0 {
					x := stack[len(stack)-1]
					stack = stack[:len(stack)-1]
					if li.blocks[x] {
						continue
					}
					li.blocks[x] = true
					stack = append(stack, x.Preds...)
				}
			}
		}
	}
	var hs []*ssa.BasicBlock
	for h := range vc.loops {
		hs = append(hs, h)
	}
	sort.Slice(hs, func(i, j int) bool { return hs[i].Index < hs[j].Index })
	for i, h := range hs {
		vc.loops[h].ordinal = i + 1
		if vc.contract != nil {
			vc.loops[h].spec = vc.contract.Loops[i+1]
		}
	}
}

// loopEnv resolves program variable names at a loop header: header phis by source name, then values in scope.
func (vc *VC) loopEnv(st *State, li *loopInfo, old *Heap) *Env {
	e := vc.fnEnv(st, old)
	base := e.locals
	names := vc.namesAt(li.header)
	// a parameter that was reassigned before the loop denotes its current value inside loop invariants
	for _, p := range vc.fn.Params {
		if v, ok := names[p.Name()]; ok && v != ssa.Value(p) {
			if x, ok := st.vals[v]; ok && x.T != "" {
				if _, isAlloc := v.(*ssa.Alloc); !isAlloc {
					if e.entry == nil {
						e.entry = map[string]TV{}
					}
					e.entry[p.Name()] = e.vars[p.Name()]
					e.vars[p.Name()] = TV{T: x.T, S: goSType(v.Type())}
				}
			}
		}
	}
	e.locals = func(ce *Env, name string) (TV, bool) {
		if (strings.HasPrefix(name, "_idx") || strings.HasPrefix(name, "_done")) && name != "_idx" && name != "_done" {
			ord := 0
			fmt.Sscanf(strings.TrimLeft(name, "_idxdone"), "%d", &ord)
			for _, lj := range vc.loops {
				if lj.ordinal == ord {
					for _, ins := range lj.header.Instrs {
						if phi, ok := ins.(*ssa.Phi); ok && phi.Comment == "rangeindex" {
							if pv, ok := st.vals[phi]; ok {
								return TV{T: app("+", pv.T, "1"), S: stInt}, true
							}
						}
					}
				}
			}
		}
		if name == "_visited" {
			// the set of keys a map-range loop has delivered so far
			for _, ins := range li.header.Instrs {
				if nx, ok := ins.(*ssa.Next); ok {
					if r, ok := nx.Iter.(*ssa.Range); ok {
						if mt, ok := types.Unalias(r.X.Type()).Underlying().(*types.Map); ok {
							if id, ok := st.vals[r]; ok {
								ks := sortOf(mt.Key())
								vis := vc.hget(ce.heap, "IterVisited_"+sortID(ks), mapDomSort(ks))
								return TV{T: app("select", vis, id.T), S: &SType{Sort: fmt.Sprintf("(Array %s Bool)", ks), Key: goSType(mt.Key()), Elem: stBool}}, true
							}
						}
					}
				}
			}
		}
		if name == "_range" {
			// the slice a range loop iterates over (when the range expression has no name of its own)
			for _, ins := range li.header.Instrs {
				if phi, ok := ins.(*ssa.Phi); ok && phi.Comment == "rangeindex" {
					if lim := vc.rangeLimit(li, phi); lim != nil {
						if cl, ok := lim.(*ssa.Call); ok && len(cl.Call.Args) == 1 {
							if sv, ok := st.vals[cl.Call.Args[0]]; ok && sv.T != "" {
								return TV{T: sv.T, S: goSType(cl.Call.Args[0].Type())}, true
							}
						}
					}
				}
			}
		}
		if name == "_idx" || name == "_done" {
			for _, ins := range li.header.Instrs {
				if phi, ok := ins.(*ssa.Phi); ok && phi.Comment == "rangeindex" {
					if name == "_idx" {
						return TV{T: st.vals[phi].T, S: stInt}, true
					}
					return TV{T: app("+", st.vals[phi].T, "1"), S: stInt}, true
				}
			}
		}
		if v, ok := names[name]; ok {
			if x, ok := st.vals[v]; ok && x.T != "" {
				// address-taken locals: the value is the cell address; dereference
				if al, isAlloc := v.(*ssa.Alloc); isAlloc {
					et := al.Type().(*types.Pointer).Elem()
					if isPlainStruct(et) {
						return TV{T: x.T, S: goSType(al.Type())}, true
					}
					s := sortOf(et)
					return TV{T: app("select", vc.hget(ce.heap, cellArr(s), arrSort(s)), x.T), S: goSType(et)}, true
				}
				return TV{T: x.T, S: goSType(v.Type())}, true
			}
		}
		return base(ce, name)
	}
	return e
}

// namesAt maps source variable names to SSA values visible at block b: phis of b first, then DebugRefs and named
// allocs in dominating blocks (latest wins).
func (vc *VC) namesAt(b *ssa.BasicBlock) map[string]ssa.Value {
	out := map[string]ssa.Value{}
	fn := vc.fn
	for _, blk := range fn.Blocks {
		if blk != b && !blk.Dominates(b) {
			continue
		}
		for _, ins := range blk.Instrs {
			switch x := ins.(type) {
			case *ssa.DebugRef:
				if blk == b {
					continue
				}
				if id, ok := x.Expr.(interface{ String() string }); ok {
					_ = id
				}
				if obj := x.Object(); obj != nil && !x.IsAddr {
					if _, isVar := obj.(*types.Var); isVar {
						out[obj.Name()] = x.X
					}
				}
			case *ssa.Alloc:
				if x.Comment != "" && blk != b {
					out[x.Comment] = x
				}
			case *ssa.Phi:
				// a variable merged in a dominating block (assigned in one branch of an if before the loop)
				if x.Comment != "" && blk != b && x.Comment != "rangeindex" {
					out[x.Comment] = x
				}
			}
		}
	}
	for _, ins := range b.Instrs {
		if phi, ok := ins.(*ssa.Phi); ok && phi.Comment != "" {
			out[phi.Comment] = phi
		}
	}
	return out
}

// loopModifies computes the heap arrays the loop body may write, with the set of loop-invariant base values.
type modInfo struct {
	sort    Sort
	bases   []Term
	varying bool
	scalar  bool
}

func (vc *VC) loopModifies(st *State, li *loopInfo) map[string]*modInfo {
	// Receivers and arguments of calls that are re-read, in every iteration, from a field of a loop-invariant object
	// (c.Binder.SetConfig(...)) are provisionally taken to be the value the field has on loop entry, which makes the
	// callee's frame a fixed location instead of "anything". That is only right if nothing in the loop can write that
	// field: if the finished modifies-set contains the field's array after all, the computation is redone without
	// the provision.
	vc.provisionalLoads = map[string]bool{}
	vc.curLoop = li
	vc.loopGhostLocals = map[string]bool{}
	out := vc.loopModifiesOnce(st, li)
	for arr := range vc.provisionalLoads {
		if _, modified := out[arr]; modified {
			vc.provisionalLoads = nil
			out = vc.loopModifiesOnce(st, li)
			break
		}
	}
	vc.curLoop = nil
	return out
}

// provisionalFieldLoad: v = *(&obj.f) inside the current loop with obj defined outside it: the field's value on entry.
func (vc *VC) provisionalFieldLoad(st *State, v ssa.Value) (Term, bool) {
	li := vc.curLoop
	if li == nil || vc.provisionalLoads == nil {
		return "", false
	}
	u, ok := v.(*ssa.UnOp)
	if !ok || u.Op != token.MUL {
		return "", false
	}
	fa, ok := u.X.(*ssa.FieldAddr)
	if !ok {
		return "", false
	}
	if ins, ok := fa.X.(ssa.Instruction); ok && li.blocks[ins.Block()] {
		return "", false
	}
	obj, ok := st.vals[fa.X]
	if !ok || obj.T == "" {
		return "", false
	}
	pt, ok := types.Unalias(fa.X.Type()).Underlying().(*types.Pointer)
	if !ok {
		return "", false
	}
	stt, ok := types.Unalias(pt.Elem()).Underlying().(*types.Struct)
	if !ok {
		return "", false
	}
	f := stt.Field(fa.Field)
	arr, sub := fieldArr(pt.Elem(), f)
	if sub {
		return "", false
	}
	vc.provisionalLoads[arr] = true
	s := sortOf(f.Type())
	return app("select", vc.hget(st.heap, arr, arrSort(s)), obj.T), true
}

func (vc *VC) loopModifiesOnce(st *State, li *loopInfo) map[string]*modInfo {
	out := map[string]*modInfo{}
	add := func(arr string, s Sort, base Term, invariant, scalar bool) {
		m := out[arr]
		if m == nil {
			m = &modInfo{sort: s, scalar: scalar}
			out[arr] = m
		}
		if scalar {
			return
		}
		if invariant {
			m.bases = append(m.bases, base)
		} else {
			m.varying = true
		}
	}
	inLoop := func(v ssa.Value) bool {
		if ins, ok := v.(ssa.Instruction); ok {
			return li.blocks[ins.Block()]
		}
		return false
	}
	// an address value is "fresh" when its root object is allocated inside the loop
	var rootFresh func(v ssa.Value) bool
	rootFresh = func(v ssa.Value) bool {
		switch x := v.(type) {
		case *ssa.Alloc:
			return inLoop(x)
		case *ssa.MakeSlice, *ssa.MakeMap, *ssa.MakeClosure:
			return inLoop(x)
		case *ssa.FieldAddr:
			return rootFresh(x.X)
		case *ssa.IndexAddr:
			return rootFresh(x.X)
		case *ssa.Slice:
			return rootFresh(x.X)
		case *ssa.Call:
			if b, ok := x.Call.Value.(*ssa.Builtin); ok && b.Name() == "append" {
				return inLoop(x)
			}
		}
		return false
	}
	var blocks []*ssa.BasicBlock
	for b := range li.blocks {
		blocks = append(blocks, b)
	}
	sort.Slice(blocks, func(i, j int) bool { return blocks[i].Index < blocks[j].Index })
	for _, b := range blocks {
		for _, ins := range b.Instrs {
			switch x := ins.(type) {
			case *ssa.Store:
				vc.modOfAddr(st, x.Addr, inLoop, rootFresh, add, x)
			case *ssa.MapUpdate:
				mt := types.Unalias(x.Map.Type()).Underlying().(*types.Map)
				ks, vs := sortOf(mt.Key()), sortOf(mt.Elem())
				inv := !inLoop(x.Map)
				var base Term
				if inv {
					base = vc.val(st, x.Map).T
				} else if t, ok := vc.stableFieldLoad(st, x.Map, li); ok {
					// the map is re-read from a field of a loop-invariant object in every iteration, and nothing in the
					// loop can write that field: it is the same map throughout
					inv, base = true, t
				}
				if rootFresh(x.Map) {
					continue
				}
				add(mapDomArr(ks, vs), mapDomSort(ks), base, inv, false)
				add(mapValArr(ks, vs), mapValSort(ks, vs), base, inv, false)
			case *ssa.Go:
				add("GV_Forks", "Int", "", false, true)
				vc.hget(st.heap, "GV_Forks", "Int")
				if mc, ok := x.Call.Value.(*ssa.MakeClosure); ok {
					tfn := mc.Fn.(*ssa.Function)
					for _, p := range tfn.Params {
						add(forkArgArr(tfn, p.Name()), arrSort(sortOf(p.Type())), "", false, false)
					}
					if c := vc.lookupContract(funcKey(tfn)); c != nil && c.ThreadWG != nil {
						// the WaitGroup is loop-invariant when the closure's bindings are defined outside the loop
						inv := true
						var binds []Term
						for _, b := range mc.Bindings {
							if bv, ok := st.vals[b]; ok && !inLoop(b) {
								binds = append(binds, bv.T)
							} else {
								// a binding created inside the loop: only matters if the WaitGroup expression uses it
								binds = append(binds, "loopvarying_binding")
							}
						}
						var base Term
						if inv {
							ci := &calleeInfo{key: funcKey(tfn), contract: c, sig: tfn.Signature, fn: tfn, closure: mc, closureBind: binds}
							for _, p := range tfn.Params {
								ci.args = append(ci.args, TV{T: vc.d.declConst("unknown_"+sortID(sortOf(p.Type())), sortOf(p.Type())), S: goSType(p.Type())})
							}
							func() {
								defer func() {
									if r := recover(); r != nil {
										if _, ok := r.(specError); ok {
											inv = false
											return
										}
										panic(r)
									}
								}()
								base = vc.calleeEnv(ci, st.heap, st.heap).tr(c.ThreadWG).T
								if strings.Contains(base, "loopvarying_binding") {
									inv = false
								}
							}()
						}
						add("G_sync_WaitGroup_Forked", arrSort("Int"), base, inv, false)
					}
				}
			case ssa.CallInstruction:
				vc.modOfCall(st, x, inLoop, add)
				vc.modOfHooks(st, x, add)
			case *ssa.Next:
				if it, ok := x.Iter.(*ssa.Range); ok {
					if mt, ok := types.Unalias(it.X.Type()).Underlying().(*types.Map); ok {
						ks := sortOf(mt.Key())
						add("IterVisited_"+sortID(ks), mapDomSort(ks), "", false, false)
					}
				}
			}
		}
	}
	return out
}

// stableFieldLoad recognises v = *(&obj.f) inside a loop where obj is defined outside the loop and the loop contains
// neither a store to field f of that struct type nor any call other than builtins; it returns the field's value.
func (vc *VC) stableFieldLoad(st *State, v ssa.Value, li *loopInfo) (Term, bool) {
	u, ok := v.(*ssa.UnOp)
	if !ok || u.Op != token.MUL {
		return "", false
	}
	fa, ok := u.X.(*ssa.FieldAddr)
	if !ok {
		return "", false
	}
	if ins, ok := fa.X.(ssa.Instruction); ok && li.blocks[ins.Block()] {
		return "", false
	}
	obj, ok := st.vals[fa.X]
	if !ok || obj.T == "" {
		return "", false
	}
	pt, ok := types.Unalias(fa.X.Type()).Underlying().(*types.Pointer)
	if !ok {
		return "", false
	}
	stt, ok := types.Unalias(pt.Elem()).Underlying().(*types.Struct)
	if !ok {
		return "", false
	}
	f := stt.Field(fa.Field)
	arr, sub := fieldArr(pt.Elem(), f)
	if sub {
		return "", false
	}
	for b := range li.blocks {
		for _, ins := range b.Instrs {
			switch y := ins.(type) {
			case *ssa.Store:
				if fa2, ok := y.Addr.(*ssa.FieldAddr); ok {
					if pt2, ok := types.Unalias(fa2.X.Type()).Underlying().(*types.Pointer); ok {
						if st2, ok := types.Unalias(pt2.Elem()).Underlying().(*types.Struct); ok {
							if a2, _ := fieldArr(pt2.Elem(), st2.Field(fa2.Field)); a2 == arr {
								return "", false
							}
						}
					}
				}
			case ssa.CallInstruction:
				if _, isB := y.Common().Value.(*ssa.Builtin); !isB {
					return "", false
				}
			}
		}
	}
	s := sortOf(f.Type())
	return app("select", vc.hget(st.heap, arr, arrSort(s)), obj.T), true
}

func (vc *VC) modOfAddr(st *State, addr ssa.Value, inLoop func(ssa.Value) bool, rootFresh func(ssa.Value) bool, add func(string, Sort, Term, bool, bool), instr ssa.Instruction) {
	if rootFresh(addr) {
		// writes to objects allocated in the loop never disturb older objects; still, the array is modified
		switch x := addr.(type) {
		case *ssa.FieldAddr:
			t := x.X.Type().Underlying().(*types.Pointer).Elem()
			f := types.Unalias(t).Underlying().(*types.Struct).Field(x.Field)
			arr, sub := fieldArr(t, f)
			if !sub {
				add(arr, arrSort(sortOf(f.Type())), "", true, false)
				out := arr
				_ = out
			}
		case *ssa.IndexAddr:
			es := sortOf(elemTypeOf(x.X.Type()))
			add(elemsArr(es), elemsSort(es), "", true, false)
			add("Tags", tagsSort, "", true, false)
		case *ssa.Alloc:
			et := x.Type().(*types.Pointer).Elem()
			s := sortOf(et)
			add(cellArr(s), arrSort(s), "", true, false)
		}
		return
	}
	switch x := addr.(type) {
	case *ssa.FieldAddr:
		t := x.X.Type().Underlying().(*types.Pointer).Elem()
		f := types.Unalias(t).Underlying().(*types.Struct).Field(x.Field)
		arr, sub := fieldArr(t, f)
		if sub {
			return
		}
		inv := !inLoop(x.X)
		var base Term
		if inv {
			base = vc.val(st, x.X).T
		}
		add(arr, arrSort(sortOf(f.Type())), base, inv, false)
	case *ssa.IndexAddr:
		es := sortOf(elemTypeOf(x.X.Type()))
		inv := !inLoop(x.X)
		var base Term
		if inv {
			v := vc.val(st, x.X)
			base = v.T
			if sortOf(x.X.Type()) == "Slice" {
				base = app("sid", v.T)
			}
		}
		add(elemsArr(es), elemsSort(es), base, inv, false)
		add("Tags", tagsSort, base, inv, false)
	case *ssa.Global:
		gv := x.Object().(*types.Var)
		add(globalArr(gv), sortOf(x.Type().(*types.Pointer).Elem()), "", false, true)
	default:
		// pointer to a cell
		et, ok := derefType(addr.Type())
		if !ok {
			return
		}
		s := sortOf(et)
		inv := !inLoop(addr)
		var base Term
		if inv {
			base = vc.val(st, addr).T
		}
		add(cellArr(s), arrSort(s), base, inv, false)
	}
}

func elemTypeOf(t types.Type) types.Type {
	switch u := types.Unalias(t).Underlying().(type) {
	case *types.Slice:
		return u.Elem()
	case *types.Array:
		return u.Elem()
	case *types.Pointer:
		return elemTypeOf(u.Elem())
	}
	return t
}

// ---------- execution ----------

func (vc *VC) execFrom(st *State, b *ssa.BasicBlock, from *ssa.BasicBlock) {
	for {
		if vc.paths > vc.maxPaths {
			panic(outOfSubset{fmt.Sprintf("more than %d paths", vc.maxPaths)})
		}
		st.path = append(st.path, b.Index)
		vc.curState = st
		if li := vc.loops[b]; li != nil {
			if from != nil && li.blocks[from] {
				vc.loopBackEdge(st, li, from)
				vc.paths++
				return
			}
			vc.loopEnter(st, li, from)
		} else {
			for _, ins := range b.Instrs {
				if phi, ok := ins.(*ssa.Phi); ok {
					st.vals[phi] = vc.phiVal(st, phi, b, from)
					if phi.Comment != "" && phi.Comment != "rangeindex" {
						if st.names == nil {
							st.names = map[string]ssa.Value{}
						}
						st.names[phi.Comment] = phi
					}
				} else {
					break
				}
			}
		}
		var next *ssa.BasicBlock
		for _, ins := range b.Instrs {
			if _, ok := ins.(*ssa.Phi); ok {
				continue
			}
			if st.pendingHook != nil {
				switch ins.(type) {
				case *ssa.Extract, *ssa.DebugRef:
				default:
					ph := st.pendingHook
					st.pendingHook = nil
					vc.siteHooks(st, vc.calleeKeyOf(st, &ph.Call), ph, false)
				}
			}
			switch x := ins.(type) {
			case *ssa.If:
				c := vc.val(st, x.Cond).T
				if c != "false" {
					t := st
					if c != "true" {
						t = st.clone()
						t.assume = append(t.assume, c)
					}
					vc.execFrom(t, b.Succs[0], b)
					vc.curState = st
					if c == "true" {
						return
					}
				}
				if c == "true" {
					return
				}
				st.assume = append(st.assume, not(c))
				next = b.Succs[1]
			case *ssa.Jump:
				next = b.Succs[0]
			case *ssa.Return:
				vc.atReturn(st, x)
				vc.paths++
				return
			case *ssa.Panic:
				if vc.contract != nil && vc.contract.Panics {
					vc.paths++
					return
				}
				vc.oblige(st, "false", "no-panic:explicit", "safety", posString(vc.w, x.Pos()), vc.props(), "panic statement is unreachable", "")
				vc.paths++
				return
			default:
				vc.execInstr(st, ins)
				if st.dead {
					vc.paths++
					return
				}
			}
		}
		if next == nil {
			return
		}
		from, b = b, next
	}
}

func (vc *VC) phiVal(st *State, phi *ssa.Phi, b, from *ssa.BasicBlock) Val {
	for i, p := range b.Preds {
		if p == from {
			v := vc.val(st, phi.Edges[i])
			v.Typ = phi.Type()
			if v.T == "" && v.Loc != nil {
				vc.unsupported(phi, "phi over addresses")
			}
			return Val{T: v.T, Typ: phi.Type(), Closure: v.Closure, Fn: v.Fn, Tag: v.Tag}
		}
	}
	vc.unsupported(phi, "phi without matching predecessor")
	return Val{}
}

func (vc *VC) props() []string {
	// the merged contract carries the properties of the inherited interface-level contract as well
	if vc.effective != nil && len(vc.effective.Props) > 0 {
		return vc.effective.Props
	}
	if vc.contract != nil {
		return vc.contract.Props
	}
	return nil
}

func clauseProps(c *Clause, def []string) []string {
	if len(c.Props) > 0 {
		return c.Props
	}
	return def
}

func (vc *VC) loopEnter(st *State, li *loopInfo, from *ssa.BasicBlock) {
	b := li.header
	site := posString(vc.w, vc.loopPos(li))
	// 1. phi values on entry
	entryVals := map[*ssa.Phi]Val{}
	for _, ins := range b.Instrs {
		if phi, ok := ins.(*ssa.Phi); ok {
			entryVals[phi] = vc.phiVal(st, phi, b, from)
		} else {
			break
		}
	}
	pre := st.clone()
	for phi, v := range entryVals {
		pre.vals[phi] = v
	}
	// 2. invariants hold on entry
	if li.spec != nil {
		vc.curState = pre
		env := vc.loopEnv(pre, li, newHeap())
		for _, inv := range li.spec.Invariants {
			if inv.Free {
				vc.usedTrusted[fmt.Sprintf("assumed loop invariant [%s] of %s: %s", inv.Label, shortFuncKey(vc.key), inv.Src)] = true
				continue
			}
			g := vc.trClause(env, inv)
			vc.oblige(pre, g, fmt.Sprintf("loop%d:%s:init", li.ordinal, inv.Label), "invariant-init", site, clauseProps(inv, vc.props()), inv.Src, "")
		}
	}
	// 3. havoc
	vc.curState = st
	mods := vc.loopModifies(st, li)
	entryHeap := st.heap.clone()
	topEntry := vc.top(st)
	if _, ok := mods["top"]; !ok {
		newTop := vc.havocHeap(st, "top", "Int")
		st.assume = append(st.assume, app(">=", newTop, topEntry))
	}
	var names []string
	for n := range mods {
		names = append(names, n)
	}
	sort.Strings(names)
	for _, n := range names {
		m := mods[n]
		oldT := vc.hget(st.heap, n, m.sort)
		newT := vc.havocHeap(st, n, m.sort)
		if m.scalar || m.varying {
			continue
		}
		// frame: objects allocated before the loop and not written in it keep their contents
		conds := []Term{app("<=", "x", topEntry)}
		seen := map[Term]bool{}
		for _, bt := range m.bases {
			if bt == "" || seen[bt] {
				continue
			}
			seen[bt] = true
			conds = append(conds, not(eq("x", bt)))
		}
		st.assume = append(st.assume, fmt.Sprintf("(forall ((x Int)) (! (=> %s (= (select %s x) (select %s x))) :pattern ((select %s x))))", and(conds...), newT, oldT, newT))
	}
	for _, ins := range b.Instrs {
		if phi, ok := ins.(*ssa.Phi); ok {
			s := sortOf(phi.Type())
			c := vc.d.freshConst("phi_"+phi.Comment+"_"+phi.Name(), s)
			st.vals[phi] = Val{T: c, Typ: phi.Type()}
			vc.assumeAllocated(st, c, phi.Type())
		} else {
			break
		}
	}
	// function-local ghost variables that a hook inside the loop assigns: unknown at the loop head (their invariants say
	// what is known)
	var gls []string
	for n := range vc.loopGhostLocals {
		gls = append(gls, n)
	}
	sort.Strings(gls)
	for _, n := range gls {
		if tv, ok := st.glocals[n]; ok {
			st.glocals[n] = TV{T: vc.d.freshConst("glocal_"+n, tv.S.Sort), S: tv.S}
		}
	}
	st.loopHeap[b] = entryHeap
	// 4. automatic facts for range-over-slice index loops: -1 <= idx
	vc.autoRangeFacts(st, li)
	// 5. assume invariants
	if li.spec != nil {
		env := vc.loopEnv(st, li, newHeap())
		for _, inv := range li.spec.Invariants {
			st.assume = append(st.assume, vc.trClause(env, inv))
		}
		if li.spec.Decreases != nil {
			if st.loopVariant == nil {
				st.loopVariant = map[*ssa.BasicBlock]Term{}
			}
			v := vc.d.freshConst("variant", "Int")
			st.assume = append(st.assume, eq(v, env.tr(li.spec.Decreases).T))
			st.loopVariant[b] = v
		}
	}
	vc.terminationCheck(st, li)
	vc.laterIterationCover(st, li)
}

// laterIterationCover (path audit, thorough tier): the state assumed at the head of a range loop - havoc plus
// invariants - must admit an iteration other than the first (range index >= 1). If it does not, something the loop
// changes was not havocked (or an invariant is wrong) and everything proved after the loop holds only for loops that
// run at most once. This is the audit that exposes a missing modifies-set entry (DESIGN 11.5e).
func (vc *VC) laterIterationCover(st *State, li *loopInfo) {
	if !vc.pathCovers {
		return
	}
	for _, ins := range li.header.Instrs {
		phi, ok := ins.(*ssa.Phi)
		if !ok {
			break
		}
		if phi.Comment != "rangeindex" {
			continue
		}
		pv, ok := st.vals[phi]
		if !ok || pv.T == "" {
			continue
		}
		site := posString(vc.w, vc.loopPos(li))
		// the same question without the extra condition: a loop head that is unreachable anyway (dead branch) is not a finding
		base := append(vc.typeFacts(), st.assume...)
		scb := vc.d.script(base, "", fmt.Sprintf("loop-head cover %s loop %d site=%s", shortFuncKey(vc.key), li.ordinal, site))
		vc.obls = append(vc.obls, &Obligation{Func: vc.key, Label: fmt.Sprintf("loop%d:head-reachable", li.ordinal), Kind: "cover", Site: site, Props: vc.props(), Path: pathString(st.path), Script: scb, Expect: "pathcover"})
		assumptions := append(vc.typeFacts(), st.assume...)
		assumptions = append(assumptions, app(">=", pv.T, "0"))
		sc := vc.d.script(assumptions, "", fmt.Sprintf("later-iteration cover %s loop %d site=%s", shortFuncKey(vc.key), li.ordinal, site))
		vc.obls = append(vc.obls, &Obligation{Func: vc.key, Label: fmt.Sprintf("loop%d:later-iteration-reachable", li.ordinal), Kind: "cover", Site: site, Props: vc.props(), Path: pathString(st.path), Script: sc, Expect: "pathcover"})
	}
}

// terminationCheck: in a function whose contract says "terminates", every loop is either a range loop (bounded by
// construction) or carries a decreases clause; anything else is an obligation that cannot be discharged.
func (vc *VC) terminationCheck(st *State, li *loopInfo) {
	if vc.effective == nil || !vc.effective.Terminates {
		return
	}
	if li.spec != nil && li.spec.Decreases != nil {
		return
	}
	bounded := func(why string) {
		// counted (syntactically discharged) so that the evidence shows what the termination claim rests on
		vc.oblige(st, "true", fmt.Sprintf("loop%d:terminates", li.ordinal), "termination", posString(vc.w, vc.loopPos(li)), vc.props(), why, "")
	}
	for _, ins := range li.header.Instrs {
		if phi, ok := ins.(*ssa.Phi); ok && phi.Comment == "rangeindex" && vc.rangeLimit(li, phi) != nil {
			bounded("range loop over a slice, array or integer: bounded by construction")
			return
		}
		if nx, ok := ins.(*ssa.Next); ok {
			if _, isRange := nx.Iter.(*ssa.Range); isRange {
				bounded("range loop over a map or string: bounded by construction")
				return
			}
		}
	}
	vc.oblige(st, "false", fmt.Sprintf("loop%d:terminates", li.ordinal), "termination", posString(vc.w, vc.loopPos(li)), vc.props(),
		"the loop has a variant (decreases clause) - none is given and it is not a range loop", "")
}

func (vc *VC) loopPos(li *loopInfo) token.Pos {
	for _, ins := range li.header.Instrs {
		if ins.Pos().IsValid() {
			return ins.Pos()
		}
	}
	var bs []*ssa.BasicBlock
	for b := range li.blocks {
		bs = append(bs, b)
	}
	sort.Slice(bs, func(i, j int) bool { return bs[i].Index < bs[j].Index })
	for _, b := range bs {
		for _, ins := range b.Instrs {
			if ins.Pos().IsValid() {
				return ins.Pos()
			}
		}
	}
	return vc.fn.Pos()
}

func (vc *VC) autoRangeFacts(st *State, li *loopInfo) {
	for _, ins := range li.header.Instrs {
		phi, ok := ins.(*ssa.Phi)
		if !ok {
			break
		}
		if phi.Comment == "rangeindex" {
			st.assume = append(st.assume, app(">=", st.vals[phi].T, "(- 1)"))
			if lim := vc.rangeLimit(li, phi); lim != nil {
				if lv, ok := st.vals[lim]; ok && lv.T != "" {
					st.assume = append(st.assume, app("<", st.vals[phi].T, lv.T))
				}
			}
		}
	}
}

// rangeLimit recognises go/ssa's range-over-slice shape: header "i1 = phi+1; c = i1 < n; if c" with n defined
// outside the loop, and returns n. The derived fact phi < n is inductive: it holds on entry (n = len >= 0 > -1) and
// the back edge is only taken after i1 < n with phi' = i1.
func (vc *VC) rangeLimit(li *loopInfo, phi *ssa.Phi) ssa.Value {
	var inc *ssa.BinOp
	for _, ins := range li.header.Instrs {
		if b, ok := ins.(*ssa.BinOp); ok {
			if b.Op == token.ADD && b.X == phi {
				if c, ok := b.Y.(*ssa.Const); ok && c.Int64() == 1 {
					inc = b
				}
			}
			if inc != nil && b.Op == token.LSS && b.X == inc {
				if i, ok := b.Y.(ssa.Instruction); ok && li.blocks[i.Block()] {
					return nil
				}
				if cl, ok := b.Y.(*ssa.Call); ok {
					if bi, ok := cl.Call.Value.(*ssa.Builtin); ok && bi.Name() == "len" {
						// every back edge must carry inc into the phi
						for i, p := range li.header.Preds {
							if li.blocks[p] && phi.Edges[i] != inc {
								return nil
							}
						}
						return b.Y
					}
				}
			}
		}
	}
	return nil
}

func (vc *VC) loopBackEdge(st *State, li *loopInfo, from *ssa.BasicBlock) {
	b := li.header
	site := posString(vc.w, vc.loopPos(li))
	post := st.clone()
	for _, ins := range b.Instrs {
		if phi, ok := ins.(*ssa.Phi); ok {
			post.vals[phi] = vc.phiVal(st, phi, b, from)
		} else {
			break
		}
	}
	if li.spec != nil {
		vc.curState = post
		env := vc.loopEnv(post, li, newHeap())
		for _, inv := range li.spec.Invariants {
			if inv.Free {
				continue
			}
			g := vc.trClause(env, inv)
			vc.oblige(post, g, fmt.Sprintf("loop%d:%s:step", li.ordinal, inv.Label), "invariant-step", site, clauseProps(inv, vc.props()), inv.Src, "")
		}
		if li.spec.Decreases != nil {
			// the variant is bounded below at the head of the iteration and strictly smaller at the back edge
			if before, ok := st.loopVariant[b]; ok {
				after := env.tr(li.spec.Decreases).T
				vc.oblige(post, and(app("<=", "0", before), app("<", after, before)), fmt.Sprintf("loop%d:variant-decreases", li.ordinal), "termination", site, vc.props(), "decreases "+exprString(li.spec.Decreases), "")
			}
		}
	}
}

func (vc *VC) trClause(env *Env, c *Clause) Term {
	e2 := *env
	if c.Pkg != nil {
		e2.pkg = c.Pkg
	}
	var facts []Term
	e2.facts = &facts
	t := e2.trBool(c.Expr)
	if len(facts) > 0 && vc.curState != nil {
		seen := map[Term]bool{}
		for _, f := range facts {
			if !seen[f] {
				seen[f] = true
				vc.curState.assume = append(vc.curState.assume, f)
			}
		}
	}
	return t
}

func (vc *VC) siteOf(ins ssa.Instruction) string {
	if ins.Pos().IsValid() {
		return posString(vc.w, ins.Pos())
	}
	return posString(vc.w, vc.fn.Pos())
}

func (vc *VC) safety(st *State, goal Term, what string, ins ssa.Instruction) {
	if vc.contract != nil && vc.contract.NoSafety {
		return
	}
	vc.oblige(st, goal, "no-panic:"+what, "safety", vc.siteOf(ins), vc.props(), what, "")
	st.assume = append(st.assume, goal)
}

func (vc *VC) execInstr(st *State, ins ssa.Instruction) {
	switch x := ins.(type) {
	case *ssa.DebugRef:
		if obj := x.Object(); obj != nil && !x.IsAddr {
			if _, isVar := obj.(*types.Var); isVar {
				if st.names == nil {
					st.names = map[string]ssa.Value{}
				}
				st.names[obj.Name()] = x.X
			}
		}
		return
	case *ssa.Alloc:
		et := x.Type().(*types.Pointer).Elem()
		a := vc.alloc(st, sanitize(x.Comment))
		switch u := types.Unalias(et).Underlying().(type) {
		case *types.Struct:
			if _, opaque := isOpaqueStruct(et); opaque {
				s := sortOf(et)
				vc.setHeap(st, cellArr(s), arrSort(s), app("store", vc.hget(st.heap, cellArr(s), arrSort(s)), a, zeroOf(s, vc.d)))
			} else {
				vc.zeroInit(st, a, et)
			}
		case *types.Array:
			es := sortOf(u.Elem())
			arr := vc.hget(st.heap, elemsArr(es), elemsSort(es))
			vc.setHeap(st, elemsArr(es), elemsSort(es), app("store", arr, a, vc.d.constArray("Int", es, zeroOf(es, vc.d))))
		default:
			s := sortOf(et)
			if s != "Real" {
				vc.setHeap(st, cellArr(s), arrSort(s), app("store", vc.hget(st.heap, cellArr(s), arrSort(s)), a, zeroOf(s, vc.d)))
			}
		}
		st.vals[x] = Val{T: a, Typ: x.Type()}
	case *ssa.FieldAddr:
		base := vc.val(st, x.X)
		pt := x.X.Type().Underlying().(*types.Pointer).Elem()
		if s, opaque := isOpaqueStruct(pt); opaque {
			// &v.f where v is an opaque struct value stored somewhere: only reads are supported
			sv := base.T
			if base.Loc != nil {
				sv = vc.load(st, base, x)
			} else if !base.Direct {
				sv = vc.load(st, base, x)
			}
			f := types.Unalias(pt).Underlying().(*types.Struct).Field(x.Field)
			fn := s + "_" + f.Name()
			vc.d.declFun(fn, []Sort{s}, sortOf(f.Type()))
			st.vals[x] = Val{T: app(fn, sv), Typ: x.Type(), Direct: true}
			return
		}
		stt := types.Unalias(pt).Underlying().(*types.Struct)
		f := stt.Field(x.Field)
		if !vc.isSubobjectAddr(x.X) {
			vc.safety(st, not(eq(base.T, "0")), "nil-deref@"+typeShort(pt)+"."+f.Name(), x)
		}
		arr, sub := fieldArr(pt, f)
		if sub {
			tv := vc.stepField(st.heap, TV{T: base.T, S: goSType(x.X.Type())}, x.Field)
			st.vals[x] = Val{T: tv.T, Typ: x.Type()}
			return
		}
		fs := sortOf(f.Type())
		if isRefLike(f.Type()) {
			vc.refArrays[arr] = true
		}
		vc.hget(st.heap, arr, arrSort(fs))
		st.vals[x] = Val{Loc: &Loc{Arr: arr, ESort: fs, Base: base.T, BaseV: x.X}, Typ: x.Type()}
	case *ssa.Field:
		base := vc.val(st, x.X)
		if s, ok := isOpaqueStruct(x.X.Type()); ok {
			stt := x.X.Type().Underlying().(*types.Struct)
			f := stt.Field(x.Field)
			fn := s + "_" + f.Name()
			vc.d.declFun(fn, []Sort{s}, sortOf(f.Type()))
			st.vals[x] = Val{T: app(fn, base.T), Typ: x.Type()}
			return
		}
		if base.Tuple != nil {
			st.vals[x] = base.Tuple[x.Field]
			return
		}
		vc.unsupported(x, "field of struct value %v", x.X.Type())
	case *ssa.UnOp:
		vc.execUnOp(st, x)
	case *ssa.BinOp:
		vc.execBinOp(st, x)
	case *ssa.Store:
		addr := vc.val(st, x.Addr)
		v := vc.val(st, x.Val)
		if c, isC := x.Val.(*ssa.Const); isC && c.Value == nil && isPlainStruct(x.Val.Type()) && addr.Loc == nil {
			// *p = T{}: reset every field
			vc.zeroInit(st, addr.T, x.Val.Type())
			return
		}
		if v.T == "" {
			// storing a struct value: only the zero value of a non-opaque struct is supported
			vc.unsupported(x, "store of %v", x.Val.Type())
		}
		vc.store(st, addr, v.T, x)
		if addr.Loc != nil && addr.Loc.IsElem {
			tg := v.Tag
			if tg == "" {
				tg = vc.d.freshConst("tag", "Int")
			}
			tags := vc.hget(st.heap, "Tags", tagsSort)
			vc.setHeap(st, "Tags", tagsSort, app("store", tags, addr.Loc.Base, app("store", app("select", tags, addr.Loc.Base), addr.Loc.Idx, tg)))
		}
	case *ssa.Call:
		res := vc.execCall(st, x)
		st.vals[x] = res
		// "after call" hooks run once the call's results have been extracted (so they can name them)
		st.pendingHook = x
	case *ssa.ChangeInterface:
		v := vc.val(st, x.X)
		st.vals[x] = Val{T: v.T, Typ: x.Type()}
	case *ssa.ChangeType:
		v := vc.val(st, x.X)
		if _, isTP := types.Unalias(x.X.Type()).(*types.TypeParam); isTP && sortOf(x.Type()) == "Iface" {
			st.vals[x] = Val{T: vc.toAny(v.T, x.X.Type()), Typ: x.Type(), Tag: v.Tag}
			return
		}
		v.Typ = x.Type()
		st.vals[x] = v
	case *ssa.Convert:
		v := vc.val(st, x.X)
		from, to := sortOf(x.X.Type()), sortOf(x.Type())
		if from == to {
			st.vals[x] = Val{T: v.T, Typ: x.Type()}
			return
		}
		fn := "conv_" + sortID(from) + "_" + sortID(to)
		vc.d.declFun(fn, []Sort{from}, to)
		st.vals[x] = Val{T: app(fn, v.T), Typ: x.Type()}
	case *ssa.MakeInterface:
		v := vc.val(st, x.X)
		if v.T == "" {
			vc.unsupported(x, "make interface of %v", x.X.Type())
		}
		st.vals[x] = Val{T: vc.toAny(v.T, x.X.Type()), Typ: x.Type()}
	case *ssa.TypeAssert:
		vc.execTypeAssert(st, x)
	case *ssa.Extract:
		t := vc.val(st, x.Tuple)
		if x.Index >= len(t.Tuple) {
			vc.unsupported(x, "extract from non-tuple")
		}
		st.vals[x] = t.Tuple[x.Index]
	case *ssa.MakeSlice:
		n := vc.val(st, x.Len).T
		a := vc.alloc(st, "slice")
		es := sortOf(x.Type().Underlying().(*types.Slice).Elem())
		arr := vc.hget(st.heap, elemsArr(es), elemsSort(es))
		vc.safety(st, app(">=", n, "0"), "makeslice-len", x)
		vc.setHeap(st, elemsArr(es), elemsSort(es), app("store", arr, a, vc.d.constArray("Int", es, zeroOf(es, vc.d))))
		st.vals[x] = Val{T: app("mk_slice", a, "0", n), Typ: x.Type()}
	case *ssa.MakeMap:
		a := vc.alloc(st, "map")
		mt := types.Unalias(x.Type()).Underlying().(*types.Map)
		ks, vs := sortOf(mt.Key()), sortOf(mt.Elem())
		md := vc.hget(st.heap, mapDomArr(ks, vs), mapDomSort(ks))
		vc.setHeap(st, mapDomArr(ks, vs), mapDomSort(ks), app("store", md, a, fmt.Sprintf("((as const (Array %s Bool)) false)", ks)))
		vc.hget(st.heap, mapValArr(ks, vs), mapValSort(ks, vs))
		st.vals[x] = Val{T: a, Typ: x.Type()}
	case *ssa.MakeClosure:
		a := vc.alloc(st, "closure")
		fn := x.Fn.(*ssa.Function)
		vc.d.declFun("closure_code", []Sort{"Int"}, "Int")
		st.assume = append(st.assume, eq(app("closure_code", a), vc.funcConst(funcKey(fn))))
		for i, b := range x.Bindings {
			bv := vc.val(st, b)
			if bv.T == "" {
				vc.unsupported(x, "closure binding %d is not a value", i)
			}
			cf := fmt.Sprintf("capt_%s_%d", sanitize(shortKey(funcKey(fn))), i)
			vc.d.declFun(cf, []Sort{"Int"}, sortOf(b.Type()))
			st.assume = append(st.assume, eq(app(cf, a), bv.T))
		}
		st.closOrd++
		st.vals[x] = Val{T: a, Typ: x.Type(), Closure: x}
		vc.closureGhost(st, x, a)
	case *ssa.Slice:
		vc.execSlice(st, x)
	case *ssa.IndexAddr:
		base := vc.val(st, x.X)
		idx := vc.val(st, x.Index).T
		es := sortOf(elemTypeOf(x.X.Type()))
		vc.hget(st.heap, elemsArr(es), elemsSort(es))
		if sortOf(x.X.Type()) == "Slice" {
			vc.safety(st, and(app("<=", "0", idx), app("<", idx, app("slen", base.T))), "index", x)
			st.vals[x] = Val{Loc: &Loc{Arr: elemsArr(es), ESort: es, Base: app("sid", base.T), Idx: app("idx", base.T, idx), IsElem: true, BaseV: x.X}, Typ: x.Type()}
		} else {
			// pointer to array
			at := x.X.Type().Underlying().(*types.Pointer).Elem().Underlying().(*types.Array)
			vc.safety(st, and(app("<=", "0", idx), app("<", idx, intLit(at.Len()))), "index", x)
			st.vals[x] = Val{Loc: &Loc{Arr: elemsArr(es), ESort: es, Base: base.T, Idx: idx, IsElem: true, BaseV: x.X}, Typ: x.Type()}
		}
	case *ssa.Index:
		base := vc.val(st, x.X)
		idx := vc.val(st, x.Index).T
		if sortOf(x.X.Type()) == "Str" {
			vc.safety(st, and(app("<=", "0", idx), app("<", idx, app("strlen", base.T))), "string-index", x)
			vc.d.declFun("str_at", []Sort{"Str", "Int"}, "Int")
			st.vals[x] = Val{T: app("str_at", base.T, idx), Typ: x.Type()}
			return
		}
		vc.unsupported(x, "index of %v", x.X.Type())
	case *ssa.Lookup:
		vc.execLookup(st, x)
	case *ssa.MapUpdate:
		m := vc.val(st, x.Map)
		k := vc.val(st, x.Key).T
		v := vc.val(st, x.Value).T
		mt := types.Unalias(x.Map.Type()).Underlying().(*types.Map)
		ks, vs := sortOf(mt.Key()), sortOf(mt.Elem())
		vc.safety(st, not(eq(m.T, "0")), "nil-map-write", x)
		md := vc.hget(st.heap, mapDomArr(ks, vs), mapDomSort(ks))
		mv := vc.hget(st.heap, mapValArr(ks, vs), mapValSort(ks, vs))
		vc.setHeap(st, mapDomArr(ks, vs), mapDomSort(ks), app("store", md, m.T, app("store", app("select", md, m.T), k, "true")))
		vc.setHeap(st, mapValArr(ks, vs), mapValSort(ks, vs), app("store", mv, m.T, app("store", app("select", mv, m.T), k, v)))
	case *ssa.Range:
		vc.execRange(st, x)
	case *ssa.Next:
		vc.execNext(st, x)
	case *ssa.Defer:
		st.defers = append(st.defers, x)
	case *ssa.RunDefers:
		for i := len(st.defers) - 1; i >= 0; i-- {
			vc.execCallCommon(st, &st.defers[i].Call, st.defers[i])
		}
		st.defers = nil
	case *ssa.Go:
		vc.execGo(st, x)
	default:
		vc.unsupported(ins, "instruction %T", ins)
	}
}

func typeShort(t types.Type) string {
	return types.TypeString(t, func(p *types.Package) string { return p.Name() })
}

func (vc *VC) isSubobjectAddr(v ssa.Value) bool {
	fa, ok := v.(*ssa.FieldAddr)
	if !ok {
		return false
	}
	pt := fa.X.Type().Underlying().(*types.Pointer).Elem()
	f := types.Unalias(pt).Underlying().(*types.Struct).Field(fa.Field)
	_, sub := fieldArr(pt, f)
	return sub
}

func (vc *VC) execUnOp(st *State, x *ssa.UnOp) {
	v := vc.val(st, x.X)
	switch x.Op {
	case token.MUL:
		if v.Direct {
			st.vals[x] = Val{T: v.T, Typ: x.Type()}
			return
		}
		if v.Loc == nil {
			if !vc.isSubobjectAddr(x.X) {
				if _, isAlloc := x.X.(*ssa.Alloc); !isAlloc {
					if _, isFV := x.X.(*ssa.FreeVar); !isFV {
						vc.safety(st, not(eq(v.T, "0")), "nil-deref", x)
					}
				}
			}
		}
		// zero-size / opaque struct loads
		if stt, ok := types.Unalias(x.Type()).Underlying().(*types.Struct); ok {
			if _, opaque := isOpaqueStruct(x.Type()); !opaque {
				if stt.NumFields() == 0 {
					st.vals[x] = Val{T: vc.d.declConst("unit", "Unit"), Typ: x.Type()}
					return
				}
				vc.unsupported(x, "load of struct value %v", x.Type())
			}
		}
		t := vc.load(st, v, x)
		out := Val{T: t, Typ: x.Type()}
		if v.Loc != nil && v.Loc.IsElem {
			out.Tag = app("select", app("select", vc.hget(st.heap, "Tags", tagsSort), v.Loc.Base), v.Loc.Idx)
		}
		st.vals[x] = out
		vc.assumeAllocated(st, t, x.Type())
	case token.NOT:
		st.vals[x] = Val{T: not(v.T), Typ: x.Type()}
	case token.SUB:
		st.vals[x] = Val{T: app("-", v.T), Typ: x.Type()}
	default:
		vc.unsupported(x, "unary %s", x.Op)
	}
}

func (vc *VC) execBinOp(st *State, x *ssa.BinOp) {
	a := vc.val(st, x.X)
	b := vc.val(st, x.Y)
	s := sortOf(x.X.Type())
	var t Term
	switch x.Op {
	case token.EQL, token.NEQ:
		if s == "Slice" {
			// only comparison with nil is legal
			other := a
			if a.IsNilC {
				other = b
			}
			t = eq(app("sid", other.T), "0")
		} else if s == "Real" {
			t = vc.d.freshConst("fcmp", "Bool")
		} else {
			t = eq(a.T, b.T)
		}
		if x.Op == token.NEQ {
			t = not(t)
		}
	case token.LSS, token.LEQ, token.GTR, token.GEQ:
		if s == "Str" {
			vc.d.useStrLt()
			switch x.Op {
			case token.LSS:
				t = app("str_lt", a.T, b.T)
			case token.GTR:
				t = app("str_lt", b.T, a.T)
			case token.LEQ:
				t = not(app("str_lt", b.T, a.T))
			default:
				t = not(app("str_lt", a.T, b.T))
			}
		} else {
			op := map[token.Token]string{token.LSS: "<", token.LEQ: "<=", token.GTR: ">", token.GEQ: ">="}[x.Op]
			t = app(op, a.T, b.T)
		}
	case token.ADD:
		if s == "Str" {
			vc.d.useStrCat()
			t = app("str_cat", a.T, b.T)
		} else {
			t = app("+", a.T, b.T)
			vc.overflowCheck(st, t, x)
		}
	case token.SUB:
		t = app("-", a.T, b.T)
		vc.overflowCheck(st, t, x)
	case token.MUL:
		t = app("*", a.T, b.T)
		vc.overflowCheck(st, t, x)
	case token.QUO:
		vc.safety(st, not(eq(b.T, "0")), "div-by-zero", x)
		t = app("div", a.T, b.T)
	case token.REM:
		vc.safety(st, not(eq(b.T, "0")), "div-by-zero", x)
		t = app("mod", a.T, b.T)
	default:
		t = vc.d.freshConst("binop", sortOf(x.Type()))
	}
	st.vals[x] = Val{T: t, Typ: x.Type()}
}

// overflowCheck: machine integers are checked, not assumed, to stay in range (closes assumption A-INT for the
// arithmetic the verified functions perform).
func (vc *VC) overflowCheck(st *State, t Term, x *ssa.BinOp) {
	lo, hi, ok := intRange(x.Type())
	if !ok {
		return
	}
	if _, c1 := x.X.(*ssa.Const); c1 {
		if _, c2 := x.Y.(*ssa.Const); c2 {
			return
		}
	}
	vc.safety(st, and(app("<=", lo, t), app("<=", t, hi)), "overflow@"+x.Op.String(), x)
}

func (vc *VC) execTypeAssert(st *State, x *ssa.TypeAssert) {
	v := vc.val(st, x.X)
	at := types.Unalias(x.AssertedType)
	var ok, res Term
	if _, isTP := at.(*types.TypeParam); isTP {
		s := sortOf(at)
		vc.toAny(vc.d.declConst("dummy_"+sortID(s), s), at) // declares fromany/isdyn
		ok = and(not(eq(v.T, "iface_nil")), app("isdyn_"+sortID(s), v.T))
		res = app("fromany_"+sortID(s), v.T)
	} else if _, isI := at.Underlying().(*types.Interface); isI {
		ok = and(not(eq(v.T, "iface_nil")), app("implements", app("dyn", v.T), intLit(int64(vc.typeID(at)))))
		if it := at.Underlying().(*types.Interface); it.NumMethods() == 0 {
			ok = not(eq(v.T, "iface_nil"))
		}
		res = v.T
	} else {
		ok = and(not(eq(v.T, "iface_nil")), eq(app("dyn", v.T), intLit(int64(vc.typeID(at)))))
		res = vc.d.unbox(sortOf(at), app("pl", v.T))
	}
	if x.CommaOk {
		s := sortOf(at)
		okc := vc.d.freshConst("ok", "Bool")
		st.assume = append(st.assume, eq(okc, ok))
		rc := vc.d.freshConst("asserted", s)
		st.assume = append(st.assume, eq(rc, app("ite", okc, res, zeroOf(s, vc.d))))
		st.vals[x] = Val{Tuple: []Val{{T: rc, Typ: at}, {T: okc, Typ: types.Typ[types.Bool]}}}
		return
	}
	vc.safety(st, ok, "type-assert@"+typeShort(at), x)
	st.vals[x] = Val{T: res, Typ: at}
}

func (vc *VC) execSlice(st *State, x *ssa.Slice) {
	base := vc.val(st, x.X)
	var lo, hi Term = "0", ""
	if x.Low != nil {
		lo = vc.val(st, x.Low).T
	}
	if x.High != nil {
		hi = vc.val(st, x.High).T
	}
	switch u := types.Unalias(x.X.Type()).Underlying().(type) {
	case *types.Pointer:
		at := u.Elem().Underlying().(*types.Array)
		if hi == "" {
			hi = intLit(at.Len())
		}
		vc.safety(st, and(app("<=", "0", lo), app("<=", lo, hi), app("<=", hi, intLit(at.Len()))), "slice-bounds", x)
		st.vals[x] = Val{T: app("mk_slice", base.T, lo, app("-", hi, lo)), Typ: x.Type()}
	case *types.Slice:
		if hi == "" {
			hi = app("slen", base.T)
		}
		// capacity is not modelled: slicing beyond len is reported
		vc.safety(st, and(app("<=", "0", lo), app("<=", lo, hi), app("<=", hi, app("slen", base.T))), "slice-bounds", x)
		nv := vc.d.freshConst("subslice", "Slice")
		st.assume = append(st.assume, eq(nv, app("mk_slice", app("sid", base.T), app("+", app("soff", base.T), lo), app("-", hi, lo))))
		// element i of the sub-slice is element lo+i of the base (stated on the index function so that facts about the
		// base's elements are found when the sub-slice is read)
		st.assume = append(st.assume, fmt.Sprintf("(forall ((i Int)) (! (= (idx %s i) (idx %s (+ %s i))) :pattern ((idx %s i))))", nv, base.T, lo, nv))
		st.vals[x] = Val{T: nv, Typ: x.Type()}
	case *types.Basic:
		if hi == "" {
			hi = app("strlen", base.T)
		}
		vc.safety(st, and(app("<=", "0", lo), app("<=", lo, hi), app("<=", hi, app("strlen", base.T))), "string-slice-bounds", x)
		vc.declStrSub()
		st.vals[x] = Val{T: app("str_sub", base.T, lo, hi), Typ: x.Type()}
	default:
		vc.unsupported(x, "slice of %v", x.X.Type())
	}
}

func (vc *VC) declStrSub() {
	vc.d.declFun("str_sub", []Sort{"Str", "Int", "Int"}, "Str")
	vc.d.axiom("(forall ((s Str) (a Int) (b Int)) (! (=> (and (<= 0 a) (<= a b) (<= b (strlen s))) (= (strlen (str_sub s a b)) (- b a))) :pattern ((str_sub s a b))))")
	vc.d.axiom("(forall ((s Str)) (! (= (str_sub s 0 (strlen s)) s) :pattern ((strlen s))))")
}

func (vc *VC) execLookup(st *State, x *ssa.Lookup) {
	m := vc.val(st, x.X)
	k := vc.val(st, x.Index).T
	if mt, ok := types.Unalias(x.X.Type()).Underlying().(*types.Map); ok {
		ks, vs := sortOf(mt.Key()), sortOf(mt.Elem())
		md := vc.hget(st.heap, mapDomArr(ks, vs), mapDomSort(ks))
		mv := vc.hget(st.heap, mapValArr(ks, vs), mapValSort(ks, vs))
		// a nil map reads as empty
		in := and(not(eq(m.T, "0")), app("select", app("select", md, m.T), k))
		val := app("ite", in, app("select", app("select", mv, m.T), k), zeroOf(vs, vc.d))
		vt := vc.d.freshConst("lookup", vs)
		st.assume = append(st.assume, eq(vt, val))
		vc.assumeAllocated(st, vt, mt.Elem())
		if x.CommaOk {
			okc := vc.d.freshConst("ok", "Bool")
			st.assume = append(st.assume, eq(okc, in))
			st.vals[x] = Val{Tuple: []Val{{T: vt, Typ: mt.Elem()}, {T: okc, Typ: types.Typ[types.Bool]}}}
		} else {
			st.vals[x] = Val{T: vt, Typ: mt.Elem()}
		}
		return
	}
	// string index
	vc.safety(st, and(app("<=", "0", k), app("<", k, app("strlen", m.T))), "string-index", x)
	vc.d.declFun("str_at", []Sort{"Str", "Int"}, "Int")
	st.vals[x] = Val{T: app("str_at", m.T, k), Typ: x.Type()}
}

func (vc *VC) execRange(st *State, x *ssa.Range) {
	m := vc.val(st, x.X)
	id := vc.alloc(st, "iter")
	if mt, ok := types.Unalias(x.X.Type()).Underlying().(*types.Map); ok {
		ks, vs := sortOf(mt.Key()), sortOf(mt.Elem())
		arr := "IterVisited_" + sortID(ks)
		cur := vc.hget(st.heap, arr, mapDomSort(ks))
		vc.setHeap(st, arr, mapDomSort(ks), app("store", cur, id, fmt.Sprintf("((as const (Array %s Bool)) false)", ks)))
		st.iters[x] = &iterInfo{mapTerm: m.T, kSort: ks, vSort: vs, visited: arr, id: id}
		st.vals[x] = Val{T: id, Typ: x.Type()}
		return
	}
	vc.unsupported(x, "range over %v", x.X.Type())
}

func (vc *VC) execNext(st *State, x *ssa.Next) {
	it := st.iters[x.Iter]
	if it == nil {
		// the iterator was created before a loop havoc: rebuild from the Range instruction
		r, ok := x.Iter.(*ssa.Range)
		if !ok {
			vc.unsupported(x, "next on unknown iterator")
		}
		mt := types.Unalias(r.X.Type()).Underlying().(*types.Map)
		ks, vs := sortOf(mt.Key()), sortOf(mt.Elem())
		it = &iterInfo{mapTerm: vc.val(st, r.X).T, kSort: ks, vSort: vs, visited: "IterVisited_" + sortID(ks), id: vc.val(st, r).T}
	}
	ks, vs := it.kSort, it.vSort
	md := vc.hget(st.heap, mapDomArr(ks, vs), mapDomSort(ks))
	mv := vc.hget(st.heap, mapValArr(ks, vs), mapValSort(ks, vs))
	vis := vc.hget(st.heap, it.visited, mapDomSort(ks))
	ok := vc.d.freshConst("next_ok", "Bool")
	k := vc.d.freshConst("next_k", ks)
	v := vc.d.freshConst("next_v", vs)
	dom := app("select", md, it.mapTerm)
	visited := app("select", vis, it.id)
	st.assume = append(st.assume,
		implies(ok, and(not(eq(it.mapTerm, "0")), app("select", dom, k), not(app("select", visited, k)), eq(v, app("select", app("select", mv, it.mapTerm), k)))),
		implies(not(ok), fmt.Sprintf("(forall ((kk %s)) (! (=> (select %s kk) (select %s kk)) :pattern ((select %s kk))))", ks, dom, visited, dom)),
		// array extensionality, spelled out for the exit of the loop: delivered keys == domain makes the two sets equal
		implies(not(ok), fmt.Sprintf("(=> (forall ((kk %s)) (! (=> (select %s kk) (select %s kk)) :pattern ((select %s kk)))) (= %s %s))", ks, visited, dom, visited, visited, dom)))
	vc.setHeap(st, it.visited, mapDomSort(ks), app("store", vis, it.id, app("ite", ok, app("store", visited, k, "true"), visited)))
	tup := x.Type().(*types.Tuple)
	st.vals[x] = Val{Tuple: []Val{{T: ok, Typ: types.Typ[types.Bool]}, {T: k, Typ: tup.At(1).Type()}, {T: v, Typ: tup.At(2).Type()}}}
	vc.assumeAllocated(st, v, tup.At(2).Type())
}


var heapArrayRe = regexp.MustCompile(`\b(?:F|G|GV|Glob|Cell|Elems|MapDom|MapVal)_[A-Za-z0-9_]+`)

// modOfHooks: ghost hooks ("ghost before|after call f: target = value") attached to a call inside a loop write their
// targets in every iteration, so the targets belong to the loop's modifies-set: ghost globals and ghost fields are
// havocked at the loop head like any other location, function-local ghost variables likewise (loopGhostLocals).
// Matching is by callee name only (ordinals and argument patterns are ignored): too many targets is harmless.
func (vc *VC) modOfHooks(st *State, call ssa.CallInstruction, add func(string, Sort, Term, bool, bool)) {
	if vc.contract == nil || len(vc.contract.Ghosts) == 0 {
		return
	}
	cc := call.Common()
	keys := []string{vc.calleeKeyOf(st, cc)}
	if cc.IsInvoke() {
		keys = append(keys, ifaceMethodKey(cc.Method))
	} else if _, isB := cc.Value.(*ssa.Builtin); !isB {
		if _, isF := cc.Value.(*ssa.Function); !isF {
			keys = append(keys, "dynamic:"+cc.Value.Name())
		}
	}
	for _, g := range vc.contract.Ghosts {
		if g.Callee == "@return" {
			continue
		}
		pat := g.Callee
		if i := strings.Index(pat, "("); i > 0 && strings.HasSuffix(pat, ")") && !strings.HasPrefix(pat, "(") {
			pat = pat[:i]
		}
		hit := false
		for _, k := range keys {
			switch {
			case strings.HasPrefix(pat, "@"):
				hit = hit || k == "dynamic:"+pat[1:]
			case strings.HasSuffix(pat, "$"):
				hit = hit || strings.HasSuffix(k, pat[:len(pat)-1])
			default:
				hit = hit || strings.Contains(k, pat)
			}
		}
		if !hit {
			continue
		}
		if id, ok := g.Target.(*ast.Ident); ok && vc.effective != nil {
			isLocal := false
			for _, gl := range vc.effective.GhostLocals {
				if gl.Name == id.Name {
					isLocal = true
				}
			}
			if isLocal {
				if vc.loopGhostLocals != nil {
					vc.loopGhostLocals[id.Name] = true
				}
				continue
			}
		}
		func() {
			defer func() {
				if r := recover(); r != nil {
					if _, ok := r.(specError); ok {
						// the target cannot be named at the loop head: give up on precision, not on soundness
						for n, srt := range vc.arrays {
							if strings.HasPrefix(n, "GV_") || strings.HasPrefix(n, "G_") {
								add(n, srt, "", false, strings.HasPrefix(n, "GV_") && !strings.HasPrefix(string(srt), "(Array"))
							}
						}
						return
					}
					panic(r)
				}
			}()
			env := vc.fnEnvNames(st)
			for _, lv := range env.lvals(g.Target) {
				switch {
				case lv.Idx == "":
					add(lv.Arr, lv.Sort, "", false, true)
				case vc.provisionalLoads != nil && !strings.Contains(lv.Idx, "unknown_"):
					// x.F with x named at the loop head: a fixed location, provided nothing the index is read from is
					// itself modified in the loop (checked once the modifies-set is complete, see loopModifies)
					for _, a := range heapArrayRe.FindAllString(lv.Idx, -1) {
						vc.provisionalLoads[a] = true
					}
					add(lv.Arr, lv.Sort, lv.Idx, true, false)
				default:
					add(lv.Arr, lv.Sort, "", false, false)
				}
			}
		}()
	}
}
