package special_inject_condition

// Demonstration of F-C08: an optional injection point without candidates placed before another field stops the
// narrowing of every later field of the same holder (return instead of continue), so a qualifier on a later field is
// ignored, and an optional by-name point whose name is absent leaves a nil candidate behind that is dereferenced later.

import (
	"testing"

	"github.com/go-kid/ioc"
	"github.com/go-kid/ioc/app"
)

type fc08Nobody interface{ nobody() }
type fc08Q interface{ Tag() string }

type fc08A struct{}

func (a *fc08A) Tag() string       { return "A" }
func (a *fc08A) Qualifier() string { return "A" }

type fc08B struct{}

func (b *fc08B) Tag() string       { return "B" }
func (b *fc08B) Qualifier() string { return "B" }

type fc08Holder struct {
	None fc08Nobody `wire:",required=false"`
	X    fc08Q      `wire:",qualifier=B"`
}

func TestFindingC08LaterFieldStillNarrowed(t *testing.T) {
	for i := 0; i < 40; i++ {
		h := &fc08Holder{}
		_, err := ioc.Run(app.LogError, app.SetComponents(h, &fc08A{}, &fc08B{}))
		if err != nil {
			t.Fatalf("run %d: %v", i, err)
		}
		if h.X == nil || h.X.Tag() != "B" {
			t.Fatalf("run %d: field X carries qualifier=B but received %v: the qualifier was ignored because an earlier optional field had no candidates", i, h.X)
		}
	}
}

type fc08T struct{}
type fc08ByName struct {
	F *fc08T `wire:"absent,required=false"`
}

func TestFindingC08OptionalAbsentNameDoesNotPanic(t *testing.T) {
	defer func() {
		if r := recover(); r != nil {
			t.Fatalf("optional by-name point with an absent name made start-up panic: %v", r)
		}
	}()
	h := &fc08ByName{}
	_, err := ioc.Run(app.LogError, app.SetComponents(h))
	if err != nil {
		t.Fatalf("optional point must not fail start-up: %v", err)
	}
	if h.F != nil {
		t.Fatalf("optional point without target must stay nil")
	}
}
