package main

import (
	"fmt"
	"go/ast"
	"go/constant"
	"go/token"
	"go/types"
	"golang.org/x/tools/go/ssa"
	"regexp"
	"strconv"
	"strings"

	"golang.org/x/tools/go/packages"
)

// SType is the type of a spec-level value.
type SType struct {
	Sort Sort
	Go   types.Type // nil for purely logical sorts
	Key  *SType     // spec maps
	Elem *SType
}

func goSType(t types.Type) *SType { return &SType{Sort: sortOf(t), Go: t} }

var (
	stInt  = &SType{Sort: "Int", Go: types.Typ[types.Int]}
	stBool = &SType{Sort: "Bool", Go: types.Typ[types.Bool]}
	stStr  = &SType{Sort: "Str", Go: types.Typ[types.String]}
)

type TV struct {
	T Term
	S *SType
	// Nil literal (untyped) - adapts to the other operand
	IsNil bool
}

// Heap is a snapshot: array name -> current term. Missing entries denote the base symbol.
type Heap struct {
	cur   map[string]Term
	epoch string // non-empty after a havoc-everything event: unseen arrays get epoch-specific symbols
}

func newHeap() *Heap { return &Heap{cur: map[string]Term{}} }
func (h *Heap) clone() *Heap {
	n := newHeap()
	n.epoch = h.epoch
	for k, v := range h.cur {
		n.cur[k] = v
	}
	return n
}

type Env struct {
	vc      *VC
	vars    map[string]TV
	heap    *Heap
	old     *Heap
	pkg     *packages.Package
	tparams map[string]types.Type
	depth   int
	locals  func(e *Env, name string) (TV, bool)       // late-bound lookup of program variables (loop invariants, captured variables)
	facts   *[]Term                                    // heap well-formedness facts about values read (hoistable ones only)
	entry   map[string]TV                              // entry values of parameters that were reassigned (visible through old(...))
	cellPtr func(name string) (Term, types.Type, bool) // address of a captured variable (frame / guarded targets)
	qfacts  *[]Term                                    // inside a quantifier: allocatedness facts about reads that depend on the bound variable
	fnCtx   *ssa.Function                              // the function whose contract is being evaluated (callee at call sites); nil = the function under verification
}

func (e *Env) child() *Env {
	n := *e
	n.vars = map[string]TV{}
	for k, v := range e.vars {
		n.vars[k] = v
	}
	return &n
}

type specError struct{ msg string }

func (s specError) Error() string { return s.msg }

func (e *Env) fail(n ast.Node, f string, a ...any) {
	panic(specError{fmt.Sprintf("spec: %s (in %q)", fmt.Sprintf(f, a...), exprString(n))})
}

func exprString(n ast.Node) string {
	if n == nil {
		return ""
	}
	if e, ok := n.(ast.Expr); ok {
		return types.ExprString(e)
	}
	return fmt.Sprint(n)
}

// ---------- type expressions ----------

func (e *Env) lookupPkgByName(name string) *packages.Package {
	if e.pkg != nil {
		for _, ip := range e.pkg.Imports {
			if ip.Name == name {
				return ip
			}
		}
		if e.pkg.Name == name {
			return e.pkg
		}
	}
	ps := e.vc.w.ByName[name]
	var best *packages.Package
	for _, p := range ps {
		if best == nil || (isRepoPkg(p.PkgPath) && !isRepoPkg(best.PkgPath)) {
			best = p
		}
	}
	return best
}

func (e *Env) lookupObj(name string) types.Object {
	if e.pkg != nil {
		if o := e.pkg.Types.Scope().Lookup(name); o != nil {
			return o
		}
	}
	return types.Universe.Lookup(name)
}

// resolveType interprets an expression in type position.
func (e *Env) resolveType(x ast.Expr) *SType {
	switch x := x.(type) {
	case *ast.ParenExpr:
		return e.resolveType(x.X)
	case *ast.Ident:
		if t, ok := e.tparams[x.Name]; ok {
			return goSType(t)
		}
		switch x.Name {
		case "Ref":
			return &SType{Sort: "Int"}
		case "TypeID":
			return &SType{Sort: "Int"}
		}
		o := e.lookupObj(x.Name)
		if tn, ok := o.(*types.TypeName); ok {
			return goSType(tn.Type())
		}
		e.fail(x, "unknown type %s", x.Name)
	case *ast.SelectorExpr:
		if id, ok := x.X.(*ast.Ident); ok {
			p := e.lookupPkgByName(id.Name)
			if p == nil {
				e.fail(x, "unknown package %s", id.Name)
			}
			o := p.Types.Scope().Lookup(x.Sel.Name)
			if tn, ok := o.(*types.TypeName); ok {
				return goSType(tn.Type())
			}
			e.fail(x, "unknown type %s.%s", id.Name, x.Sel.Name)
		}
	case *ast.StarExpr:
		in := e.resolveType(x.X)
		if in.Go == nil {
			e.fail(x, "pointer to logical type")
		}
		return goSType(types.NewPointer(in.Go))
	case *ast.ArrayType:
		if x.Len == nil {
			in := e.resolveType(x.Elt)
			if in.Go == nil {
				e.fail(x, "slice of logical type")
			}
			return goSType(types.NewSlice(in.Go))
		}
	case *ast.MapType:
		k := e.resolveType(x.Key)
		v := e.resolveType(x.Value)
		return &SType{Sort: fmt.Sprintf("(Array %s %s)", k.Sort, v.Sort), Key: k, Elem: v}
	case *ast.InterfaceType:
		return goSType(types.NewInterfaceType(nil, nil))
	case *ast.StructType:
		if x.Fields == nil || len(x.Fields.List) == 0 {
			return goSType(types.NewStruct(nil, nil))
		}
	case *ast.IndexExpr:
		// generic instantiation pkg.T[A]
		base := e.resolveType(x.X)
		arg := e.resolveType(x.Index)
		if n, ok := base.Go.(*types.Named); ok && arg.Go != nil {
			inst, err := types.Instantiate(nil, n, []types.Type{arg.Go}, false)
			if err == nil {
				return goSType(inst)
			}
		}
	case *ast.IndexListExpr:
		base := e.resolveType(x.X)
		var args []types.Type
		for _, ix := range x.Indices {
			args = append(args, e.resolveType(ix).Go)
		}
		if n, ok := base.Go.(*types.Named); ok {
			inst, err := types.Instantiate(nil, n, args, false)
			if err == nil {
				return goSType(inst)
			}
		}
	}
	e.fail(x, "unsupported type expression")
	return nil
}

// resolveGoType: like resolveType, but map[K]V denotes the Go map type (in ghost declarations it is a logical map).
func (e *Env) resolveGoType(x ast.Expr) *SType {
	if mt, ok := x.(*ast.MapType); ok {
		k, v := e.resolveGoType(mt.Key), e.resolveGoType(mt.Value)
		if k.Go == nil || v.Go == nil {
			e.fail(x, "map of logical types")
		}
		return goSType(types.NewMap(k.Go, v.Go))
	}
	return e.resolveType(x)
}

// tryType resolves an expression as a type name if it denotes one (never a spec function or variable).
func (e *Env) tryType(x ast.Expr) (*SType, bool) {
	switch t := x.(type) {
	case *ast.Ident:
		if _, isVar := e.vars[t.Name]; isVar {
			return nil, false
		}
		if _, isSF := e.vc.specs.SpecFuncs[t.Name]; isSF {
			return nil, false
		}
		switch t.Name {
		case "len", "old", "implies", "iff", "ite", "forall", "exists", "store", "in", "dyn", "tag", "call", "elems", "fresh", "zero", "toany", "backing", "top":
			return nil, false
		}
		if o, ok := e.lookupObj(t.Name).(*types.TypeName); ok {
			return goSType(o.Type()), true
		}
	case *ast.SelectorExpr:
		if id, ok := t.X.(*ast.Ident); ok {
			if _, isVar := e.vars[id.Name]; isVar {
				return nil, false
			}
			if p := e.lookupPkgByName(id.Name); p != nil && e.lookupObj(id.Name) == nil {
				if o, ok := p.Types.Scope().Lookup(t.Sel.Name).(*types.TypeName); ok {
					return goSType(o.Type()), true
				}
			}
		}
	}
	return nil, false
}

// ---------- expressions ----------

func (e *Env) trBool(x ast.Expr) Term {
	tv := e.tr(x)
	if tv.S.Sort != "Bool" {
		e.fail(x, "expected Bool, got %s", tv.S.Sort)
	}
	return tv.T
}

func (e *Env) tr(x ast.Expr) TV {
	e.depth++
	defer func() { e.depth-- }()
	if e.depth > 200 {
		e.fail(x, "spec expansion too deep")
	}
	vc := e.vc
	switch x := x.(type) {
	case *ast.ParenExpr:
		return e.tr(x.X)
	case *ast.BasicLit:
		switch x.Kind {
		case token.INT:
			n, _ := strconv.ParseInt(x.Value, 0, 64)
			return TV{T: intLit(n), S: stInt}
		case token.STRING:
			s, _ := strconv.Unquote(x.Value)
			return TV{T: vc.d.strLit(s), S: stStr}
		}
		e.fail(x, "unsupported literal")
	case *ast.Ident:
		return e.trIdent(x)
	case *ast.UnaryExpr:
		switch x.Op {
		case token.NOT:
			return TV{T: not(e.trBool(x.X)), S: stBool}
		case token.SUB:
			v := e.tr(x.X)
			return TV{T: app("-", v.T), S: stInt}
		}
	case *ast.BinaryExpr:
		return e.trBinary(x)
	case *ast.SelectorExpr:
		return e.trSelector(x)
	case *ast.IndexExpr:
		return e.trIndex(x)
	case *ast.CallExpr:
		return e.trCall(x)
	case *ast.StarExpr:
		// *p : dereference a pointer to a non-struct cell
		p := e.tr(x.X)
		if pt, ok := derefType(p.S.Go); ok {
			s := sortOf(pt)
			return TV{T: app("select", vc.hget(e.heap, cellArr(s), arrSort(s)), p.T), S: goSType(pt)}
		}
		e.fail(x, "cannot dereference")
	case *ast.SliceExpr:
		s := e.tr(x.X)
		if s.S.Sort != "Slice" {
			e.fail(x, "slicing a non-slice")
		}
		lo := "0"
		if x.Low != nil {
			lo = e.tr(x.Low).T
		}
		hi := app("slen", s.T)
		if x.High != nil {
			hi = e.tr(x.High).T
		}
		return TV{T: app("mk_slice", app("sid", s.T), app("+", app("soff", s.T), lo), app("-", hi, lo)), S: s.S}
	}
	e.fail(x, "unsupported expression form %T", x)
	return TV{}
}

func derefType(t types.Type) (types.Type, bool) {
	if t == nil {
		return nil, false
	}
	if p, ok := types.Unalias(t).Underlying().(*types.Pointer); ok {
		return p.Elem(), true
	}
	return nil, false
}

func (e *Env) trIdent(x *ast.Ident) TV {
	vc := e.vc
	switch x.Name {
	case "true":
		return TV{T: "true", S: stBool}
	case "false":
		return TV{T: "false", S: stBool}
	case "nil":
		return TV{T: "0", S: &SType{Sort: "Int"}, IsNil: true}
	}
	if v, ok := e.vars[x.Name]; ok {
		return v
	}
	if e.locals != nil {
		if v, ok := e.locals(e, x.Name); ok {
			return v
		}
		// a local variable that was renamed in the source: the re-binding chosen for this verification unit (main.go)
		if alias, ok := vc.aliases[x.Name]; ok {
			if v, ok := e.locals(e, alias); ok {
				return v
			}
		}
	}
	if gv, ok := vc.specs.GhostVars[x.Name]; ok {
		ge := &Env{vc: vc, pkg: gv.Pkg, vars: map[string]TV{}, heap: e.heap, old: e.old}
		st := ge.resolveType(gv.Type)
		return TV{T: vc.hget(e.heap, "GV_"+gv.Name, st.Sort), S: st}
	}
	if sf, ok := vc.specs.SpecFuncs[x.Name]; ok && len(sf.Params) == 0 {
		return e.applySpecFunc(sf, nil, x)
	}
	// package-level constant or variable
	if o := e.lookupObj(x.Name); o != nil {
		if tv, ok := e.objValue(o, x); ok {
			return tv
		}
	}
	e.fail(x, "unknown identifier %s", x.Name)
	return TV{}
}

func (e *Env) objValue(o types.Object, n ast.Node) (TV, bool) {
	vc := e.vc
	switch o := o.(type) {
	case *types.Const:
		return vc.constTV(o.Val(), o.Type()), true
	case *types.Var:
		if o.Parent() == o.Pkg().Scope() {
			s := sortOf(o.Type())
			return TV{T: vc.hget(e.heap, globalArr(o), s), S: goSType(o.Type())}, true
		}
	case *types.TypeName:
		// a type used as a value: its type id
		return TV{T: intLit(int64(vc.typeID(o.Type()))), S: &SType{Sort: "Int"}}, true
	case *types.Func:
		return TV{T: vc.funcConst(o.FullName()), S: goSType(o.Type())}, true
	}
	return TV{}, false
}

func (vc *VC) constTV(v constant.Value, t types.Type) TV {
	switch v.Kind() {
	case constant.Bool:
		if constant.BoolVal(v) {
			return TV{T: "true", S: goSType(t)}
		}
		return TV{T: "false", S: goSType(t)}
	case constant.Int:
		n, _ := constant.Int64Val(v)
		return TV{T: intLit(n), S: goSType(t)}
	case constant.String:
		return TV{T: vc.d.strLit(constant.StringVal(v)), S: goSType(t)}
	}
	return TV{T: vc.d.freshConst("const", sortOf(t)), S: goSType(t)}
}

func (e *Env) coerceNil(a, b TV) (TV, TV) {
	if a.IsNil && !b.IsNil {
		a = nilOf(b.S, e.vc)
	} else if b.IsNil && !a.IsNil {
		b = nilOf(a.S, e.vc)
	}
	return a, b
}

func nilOf(s *SType, vc *VC) TV {
	switch s.Sort {
	case "Iface":
		return TV{T: "iface_nil", S: s}
	case "Slice":
		return TV{T: "(mk_slice 0 0 0)", S: s, IsNil: true}
	}
	return TV{T: "0", S: s}
}

func (e *Env) trBinary(x *ast.BinaryExpr) TV {
	switch x.Op {
	case token.LAND:
		return TV{T: and(e.trBool(x.X), e.trBool(x.Y)), S: stBool}
	case token.LOR:
		return TV{T: or(e.trBool(x.X), e.trBool(x.Y)), S: stBool}
	}
	a := e.tr(x.X)
	b := e.tr(x.Y)
	a, b = e.coerceNil(a, b)
	switch x.Op {
	case token.EQL, token.NEQ:
		var t Term
		if a.S.Sort == "Slice" && (a.IsNil || b.IsNil) {
			other := a
			if a.IsNil {
				other = b
			}
			t = eq(app("sid", other.T), "0")
		} else {
			if a.S.Sort != b.S.Sort {
				// interface value against a concrete (pointer) value: box the concrete side
				if a.S.Sort == "Iface" && b.S.Go != nil {
					b = TV{T: e.vc.toAny(b.T, b.S.Go), S: a.S}
				} else if b.S.Sort == "Iface" && a.S.Go != nil {
					a = TV{T: e.vc.toAny(a.T, a.S.Go), S: b.S}
				} else {
					e.fail(x, "comparing %s with %s", a.S.Sort, b.S.Sort)
				}
			}
			t = eq(a.T, b.T)
		}
		if x.Op == token.NEQ {
			t = not(t)
		}
		return TV{T: t, S: stBool}
	case token.LSS, token.LEQ, token.GTR, token.GEQ:
		if a.S.Sort == "Str" {
			e.vc.d.useStrLt()
			var t Term
			switch x.Op {
			case token.LSS:
				e.vc.d.useStrLt()
				t = app("str_lt", a.T, b.T)
			case token.GTR:
				t = app("str_lt", b.T, a.T)
			case token.LEQ:
				t = not(app("str_lt", b.T, a.T))
			default:
				t = not(app("str_lt", a.T, b.T))
			}
			return TV{T: t, S: stBool}
		}
		op := map[token.Token]string{token.LSS: "<", token.LEQ: "<=", token.GTR: ">", token.GEQ: ">="}[x.Op]
		return TV{T: app(op, a.T, b.T), S: stBool}
	case token.ADD:
		if a.S.Sort == "Str" {
			e.vc.d.useStrCat()
			return TV{T: app("str_cat", a.T, b.T), S: stStr}
		}
		return TV{T: app("+", a.T, b.T), S: stInt}
	case token.SUB:
		return TV{T: app("-", a.T, b.T), S: stInt}
	case token.MUL:
		return TV{T: app("*", a.T, b.T), S: stInt}
	}
	e.fail(x, "unsupported operator %s", x.Op)
	return TV{}
}

// ownerKeyOf returns the key (pkg.T) of the named type behind t (through one pointer), plus the Named type.
func ownerKeyOf(t types.Type) (string, *types.Named, bool) {
	if t == nil {
		return "", nil, false
	}
	t = types.Unalias(t)
	isPtr := false
	if p, ok := t.(*types.Pointer); ok {
		t = types.Unalias(p.Elem())
		isPtr = true
	}
	if n, ok := t.(*types.Named); ok {
		return typeKey(n), n, isPtr
	}
	return "", nil, isPtr
}

func (e *Env) typeArgEnv(n *types.Named) map[string]types.Type {
	m := map[string]types.Type{}
	for k, v := range e.tparams {
		m[k] = v
	}
	if n == nil {
		return m
	}
	tps := n.Origin().TypeParams()
	tas := n.TypeArgs()
	for i := 0; i < tps.Len(); i++ {
		if tas != nil && i < tas.Len() {
			m[tps.At(i).Obj().Name()] = tas.At(i)
		} else {
			m[tps.At(i).Obj().Name()] = tps.At(i)
		}
	}
	return m
}

// ghostIndexTerm: the Int by which ghost fields of a value are indexed.
func ghostIndex(v TV) Term {
	if v.S.Sort == "Iface" {
		return app("pl", v.T)
	}
	return v.T
}

func (e *Env) trSelector(x *ast.SelectorExpr) TV {
	vc := e.vc
	// qualified identifier pkg.Name ?
	if id, ok := x.X.(*ast.Ident); ok {
		if _, isVar := e.vars[id.Name]; !isVar {
			isLocal := false
			if e.locals != nil {
				_, isLocal = e.locals(e, id.Name)
			}
			if !isLocal && e.lookupObj(id.Name) == nil {
				if p := e.lookupPkgByName(id.Name); p != nil {
					if o := p.Types.Scope().Lookup(x.Sel.Name); o != nil {
						if tv, ok := e.objValue(o, x); ok {
							return tv
						}
					}
					if gv, ok := vc.specs.GhostVars[x.Sel.Name]; ok {
						_ = gv
					}
					e.fail(x, "unknown %s.%s", id.Name, x.Sel.Name)
				}
			}
		}
	}
	base := e.tr(x.X)
	return e.selectField(base, x.Sel.Name, x)
}

func (e *Env) selectField(base TV, name string, n ast.Node) TV {
	vc := e.vc
	okey, named, _ := ownerKeyOf(base.S.Go)
	// interface binding for concrete types
	if okey != "" {
		ck := typeKey(base.S.Go)
		for _, b := range vc.specs.Bindings {
			if b.Concrete == ck && b.Field == name {
				if b.IndexVar != "" {
					e.fail(n, "model field %s is bound pointwise: use %s[i]", name, name)
				}
				be := &Env{vc: vc, pkg: b.Pkg, vars: map[string]TV{b.RecvName: base}, heap: e.heap, old: e.old, tparams: e.typeArgEnv(named), facts: e.facts, qfacts: e.qfacts}
				be.depth = e.depth
				return be.tr(b.Expr)
			}
		}
	}
	// ghost field declared on this type
	if okey != "" {
		if gf, ok := vc.specs.GhostFields[okey+"."+name]; ok {
			out := e.ghostField(gf, base, named)
			if base.S.Sort == "Iface" {
				// model field of an interface: for objects of a concrete type with a binding, the field IS the bound expression.
				// Only the package that owns the representation looks through the abstraction; everywhere else the model
				// field is an abstract ghost field governed by the interface-level contracts alone.
				for _, b := range vc.specs.Bindings {
					if !vc.seesRepresentation(b) {
						continue
					}
					if b.Iface == okey && b.Field == name && b.IndexVar == "" {
						ct := e.concreteTypeOf(b)
						be := &Env{vc: vc, pkg: b.Pkg, vars: map[string]TV{b.RecvName: {T: app("pl", base.T), S: goSType(ct)}}, heap: e.heap, old: e.old, facts: e.facts, qfacts: e.qfacts}
						be.depth = e.depth
						bt := be.tr(b.Expr)
						cond := and(not(eq(base.T, "iface_nil")), eq(app("dyn", base.T), intLit(int64(vc.typeID(ct)))))
						out = TV{T: app("ite", cond, bt.T, out.T), S: out.S}
					}
				}
			}
			return out
		}
	}
	// opaque struct accessor
	if s, ok := isOpaqueStruct(base.S.Go); ok {
		st := base.S.Go.Underlying().(*types.Struct)
		for i := 0; i < st.NumFields(); i++ {
			if st.Field(i).Name() == name {
				fs := sortOf(st.Field(i).Type())
				fn := s + "_" + name
				vc.d.declFun(fn, []Sort{s}, fs)
				return TV{T: app(fn, base.T), S: goSType(st.Field(i).Type())}
			}
		}
	}
	if base.S.Go != nil {
		obj, path, _ := types.LookupFieldOrMethod(base.S.Go, true, pkgTypes(e.pkg), name)
		if obj == nil {
			// try without package restriction (unexported fields of other packages are legal in specs)
			obj, path = lookupFieldAnyPkg(base.S.Go, name)
		}
		if fv, ok := obj.(*types.Var); ok && fv.IsField() {
			cur := base
			for _, idx := range path {
				cur = vc.stepField(e.heap, cur, idx)
			}
			e.noteAllocated(cur)
			return cur
		}
		// ghost field on an interface reached through a concrete implementer, or unique by name
		if gfs := vc.specs.GhostByName[name]; len(gfs) == 1 {
			return e.ghostField(gfs[0], base, named)
		}
	}
	e.fail(n, "no field %s on %v", name, base.S.Go)
	return TV{}
}

// concreteTypeOf resolves the concrete receiver type of a binding ("*path.T").
func (e *Env) concreteTypeOf(b *Binding) types.Type {
	key := b.Concrete
	ptr := strings.HasPrefix(key, "*")
	key = strings.TrimPrefix(key, "*")
	i := strings.LastIndex(key, ".")
	p := e.vc.w.AllPkgs[key[:i]]
	if p == nil {
		panic(specError{"binding: unknown package in " + b.Concrete})
	}
	o := p.Types.Scope().Lookup(key[i+1:])
	if o == nil {
		panic(specError{"binding: unknown type " + b.Concrete})
	}
	var t types.Type = o.Type()
	if ptr {
		t = types.NewPointer(t)
	}
	return t
}

var boundVarRe = regexp.MustCompile(`_q\d+|\bpa\d+_|\bd\d+_|\bjk\b|\bjl\b|\bfx\b|\bci\b`)

// noteAllocated records that a reference read from the heap denotes an allocated object of that heap.
func (e *Env) noteAllocated(v TV) {
	if v.S.Go == nil {
		return
	}
	sink := e.facts
	if boundVarRe.MatchString(v.T) {
		// a read that depends on a bound variable: the fact becomes a hypothesis of the enclosing quantifier's body
		// (well-typed heaps: what a reference-typed location holds is an allocated object)
		sink = e.qfacts
	}
	if sink == nil {
		return
	}
	if sink == e.qfacts {
		// remember the read term: it becomes the trigger of the hoisted quantified fact
		var tmp []Term
		real := sink
		sink = &tmp
		defer func() {
			for _, f := range tmp {
				*real = append(*real, v.T+"\x00"+f)
			}
		}()
	}
	top := e.vc.hget(e.heap, "top", "Int")
	switch v.S.Sort {
	case "Int":
		if isRefLike(v.S.Go) {
			*sink = append(*sink, app("<=", v.T, top), app(">=", v.T, "0"))
		}
	case "Slice":
		*sink = append(*sink, app("<=", app("sid", v.T), top), app(">=", app("sid", v.T), "0"), app(">=", app("slen", v.T), "0"), app(">=", app("soff", v.T), "0"),
			implies(eq(app("sid", v.T), "0"), eq(app("slen", v.T), "0")))
	case "Iface":
		*sink = append(*sink, implies(not(eq(v.T, "iface_nil")), app("<=", app("pl", v.T), top)))
	}
}

func pkgTypes(p *packages.Package) *types.Package {
	if p == nil {
		return nil
	}
	return p.Types
}

func lookupFieldAnyPkg(t types.Type, name string) (types.Object, []int) {
	// breadth-first over embedded fields ignoring export rules
	type item struct {
		t    types.Type
		path []int
	}
	queue := []item{{t, nil}}
	seen := map[types.Type]bool{}
	for len(queue) > 0 {
		it := queue[0]
		queue = queue[1:]
		tt := types.Unalias(it.t)
		if p, ok := tt.Underlying().(*types.Pointer); ok {
			tt = types.Unalias(p.Elem())
		}
		if seen[tt] {
			continue
		}
		seen[tt] = true
		st, ok := tt.Underlying().(*types.Struct)
		if !ok {
			continue
		}
		for i := 0; i < st.NumFields(); i++ {
			f := st.Field(i)
			p := append(append([]int{}, it.path...), i)
			if f.Name() == name {
				return f, p
			}
		}
		for i := 0; i < st.NumFields(); i++ {
			f := st.Field(i)
			if f.Embedded() {
				queue = append(queue, item{f.Type(), append(append([]int{}, it.path...), i)})
			}
		}
	}
	return nil, nil
}

func (e *Env) ghostField(gf *GhostField, base TV, named *types.Named) TV {
	vc := e.vc
	ge := &Env{vc: vc, pkg: gf.Pkg, vars: map[string]TV{}, heap: e.heap, old: e.old, tparams: e.typeArgEnv(named)}
	st := ge.resolveType(gf.Type)
	arr := ghostArrName(gf, named)
	return TV{T: app("select", vc.hget(e.heap, arr, arrSort(st.Sort)), ghostIndex(base)), S: st}
}

// ghostArrName: one heap array per ghost field and per instantiation of a generic owner (so that the views of, say,
// Map[string,*Meta] and Map[string,struct{}] objects are framed independently).
func ghostArrName(gf *GhostField, named *types.Named) string {
	arr := "G_" + sanitize(shortKey(gf.Owner)) + "_" + gf.Name
	if named != nil && named.TypeArgs() != nil {
		for i := 0; i < named.TypeArgs().Len(); i++ {
			arr += "_" + sortID(sortOf(named.TypeArgs().At(i)))
		}
	}
	return arr
}

func shortKey(k string) string {
	if i := strings.LastIndex(k, "/"); i >= 0 {
		return k[i+1:]
	}
	return k
}

func arrSort(elem Sort) Sort { return fmt.Sprintf("(Array Int %s)", elem) }

// pointwise: x.F[i] where F is a model field bound pointwise for the (concrete or dynamic) type of x.
func (e *Env) pointwise(x *ast.IndexExpr) (TV, bool) {
	vc := e.vc
	sel, ok := x.X.(*ast.SelectorExpr)
	if !ok {
		return TV{}, false
	}
	has := false
	for _, b := range vc.specs.Bindings {
		if b.Field == sel.Sel.Name && b.IndexVar != "" {
			has = true
		}
	}
	if !has {
		return TV{}, false
	}
	base := e.tr(sel.X)
	okey, named, _ := ownerKeyOf(base.S.Go)
	if okey == "" {
		return TV{}, false
	}
	idx := e.tr(x.Index)
	ck := typeKey(base.S.Go)
	for _, b := range vc.specs.Bindings {
		if b.Concrete == ck && b.Field == sel.Sel.Name && b.IndexVar != "" {
			be := &Env{vc: vc, pkg: b.Pkg, vars: map[string]TV{b.RecvName: base, b.IndexVar: idx}, heap: e.heap, old: e.old, tparams: e.typeArgEnv(named), facts: e.facts, qfacts: e.qfacts, depth: e.depth}
			return be.tr(b.Expr), true
		}
	}
	if base.S.Sort == "Iface" {
		if gf, ok := vc.specs.GhostFields[okey+"."+sel.Sel.Name]; ok {
			g := e.ghostField(gf, base, named)
			out := TV{T: app("select", g.T, idx.T), S: g.S.Elem}
			for _, b := range vc.specs.Bindings {
				if !vc.seesRepresentation(b) {
					continue
				}
				if b.Iface == okey && b.Field == sel.Sel.Name && b.IndexVar != "" {
					ct := e.concreteTypeOf(b)
					be := &Env{vc: vc, pkg: b.Pkg, vars: map[string]TV{b.RecvName: {T: app("pl", base.T), S: goSType(ct)}, b.IndexVar: idx}, heap: e.heap, old: e.old, depth: e.depth, facts: e.facts, qfacts: e.qfacts}
					bt := be.tr(b.Expr)
					cond := and(not(eq(base.T, "iface_nil")), eq(app("dyn", base.T), intLit(int64(vc.typeID(ct)))))
					out = TV{T: app("ite", cond, bt.T, out.T), S: out.S}
				}
			}
			return out, true
		}
	}
	return TV{}, false
}

func (e *Env) trIndex(x *ast.IndexExpr) TV {
	vc := e.vc
	if tv, ok := e.pointwise(x); ok {
		return tv
	}
	a := e.tr(x.X)
	i := e.tr(x.Index)
	if a.S.Key != nil {
		return TV{T: app("select", a.T, i.T), S: a.S.Elem}
	}
	if a.S.Go != nil {
		switch u := types.Unalias(a.S.Go).Underlying().(type) {
		case *types.Slice:
			es := sortOf(u.Elem())
			el := vc.hget(e.heap, elemsArr(es), elemsSort(es))
			return TV{T: app("select", app("select", el, app("sid", a.T)), app("idx", a.T, i.T)), S: goSType(u.Elem())}
		case *types.Map:
			ks, vs := sortOf(u.Key()), sortOf(u.Elem())
			mv := vc.hget(e.heap, mapValArr(ks, vs), fmt.Sprintf("(Array Int (Array %s %s))", ks, vs))
			md := vc.hget(e.heap, mapDomArr(ks, vs), mapDomSort(ks))
			// Go semantics: a missing key (or a nil map) reads as the zero value
			present := and(not(eq(a.T, "0")), app("select", app("select", md, a.T), i.T))
			return TV{T: app("ite", present, app("select", app("select", mv, a.T), i.T), zeroOf(vs, vc.d)), S: goSType(u.Elem())}
		}
	}
	e.fail(x, "cannot index %s", a.S.Sort)
	return TV{}
}

func elemsArr(es Sort) string    { return "Elems_" + sortID(es) }
func elemsSort(es Sort) Sort     { return fmt.Sprintf("(Array Int (Array Int %s))", es) }
func cellArr(s Sort) string      { return "Cell_" + sortID(s) }
func mapDomArr(k, v Sort) string { return "MapDom_" + sortID(k) + "_" + sortID(v) }
func mapValArr(k, v Sort) string { return "MapVal_" + sortID(k) + "_" + sortID(v) }
func mapDomSort(k Sort) Sort     { return fmt.Sprintf("(Array Int (Array %s Bool))", k) }
func mapValSort(k, v Sort) Sort  { return fmt.Sprintf("(Array Int (Array %s %s))", k, v) }
func globalArr(o *types.Var) string {
	return "Glob_" + sanitize(o.Pkg().Name()) + "_" + o.Name()
}

func (e *Env) applySpecFunc(sf *SpecFunc, args []TV, n ast.Node) TV {
	vc := e.vc
	if len(args) != len(sf.Params) {
		e.fail(n, "spec func %s expects %d arguments", sf.Name, len(sf.Params))
	}
	se := &Env{vc: vc, pkg: sf.Pkg, vars: map[string]TV{}, heap: e.heap, old: e.old, depth: e.depth, tparams: e.tparams, facts: e.facts, qfacts: e.qfacts}
	for i, p := range sf.Params {
		a := args[i]
		// keep the caller's (more precise) Go type; the declared type only fixes nil literals and interface boxing
		if a.IsNil {
			a = nilOf(se.resolveType(p.Type), vc)
		} else if pt := se.resolveType(p.Type); pt.Sort == "Iface" && a.S.Sort != "Iface" && a.S.Go != nil {
			a = TV{T: vc.toAny(a.T, a.S.Go), S: pt}
			args[i] = a
		}
		se.vars[p.Name] = a
	}
	if sf.Opaque {
		res := se.resolveType(sf.Result)
		var sorts []Sort
		var ts []Term
		for i, p := range sf.Params {
			pt := se.resolveType(p.Type)
			sorts = append(sorts, pt.Sort)
			if args[i].S.Sort != pt.Sort {
				e.fail(n, "spec func %s: argument %d has sort %s, want %s", sf.Name, i, args[i].S.Sort, pt.Sort)
			}
			ts = append(ts, args[i].T)
		}
		vc.d.declFun("sf_"+sf.Name, sorts, res.Sort)
		if len(ts) == 0 {
			return TV{T: "sf_" + sf.Name, S: res}
		}
		return TV{T: app("sf_"+sf.Name, ts...), S: res}
	}
	if sf.Defined {
		res := se.resolveType(sf.Result)
		var sorts []Sort
		var ts []Term
		var bound []string
		de := &Env{vc: vc, pkg: sf.Pkg, vars: map[string]TV{}, heap: newHeap(), old: newHeap(), tparams: e.tparams}
		var bts []Term
		for i, p := range sf.Params {
			pt := se.resolveType(p.Type)
			sorts = append(sorts, pt.Sort)
			ts = append(ts, args[i].T)
			bn := fmt.Sprintf("d%d_%s", i, p.Name)
			bound = append(bound, fmt.Sprintf("(%s %s)", bn, pt.Sort))
			bts = append(bts, bn)
			de.vars[p.Name] = TV{T: bn, S: pt}
		}
		fn := "sf_" + sf.Name
		if !vc.d.seen[fn] {
			vc.d.declFun(fn, sorts, res.Sort)
			body := de.tr(sf.Body)
			vc.d.axiom(fmt.Sprintf("(forall (%s) (! (= %s %s) :pattern (%s)))", strings.Join(bound, " "), app(fn, bts...), body.T, app(fn, bts...)))
		}
		return TV{T: app(fn, ts...), S: res}
	}
	out := se.tr(sf.Body)
	return out
}

func (e *Env) trCall(x *ast.CallExpr) TV {
	vc := e.vc
	// method-style spec call on a Go value: v.Method(args) with a pure contract
	if sel, ok := x.Fun.(*ast.SelectorExpr); ok {
		if tv, ok := e.tryPureMethod(sel, x); ok {
			return tv
		}
	}
	// conversion T(x) / pkg.T(x)
	if len(x.Args) == 1 {
		if tt, ok := e.tryType(x.Fun); ok {
			v := e.tr(x.Args[0])
			if tt.Sort == "Iface" && v.S.Sort != "Iface" {
				return TV{T: vc.toAny(v.T, v.S.Go), S: tt}
			}
			if tt.Sort == v.S.Sort {
				return TV{T: v.T, S: tt}
			}
			e.fail(x, "unsupported conversion from %s to %s", v.S.Sort, tt.Sort)
		}
	}
	id, ok := x.Fun.(*ast.Ident)
	if !ok {
		// qualified spec func? pkg.F(...) not supported
		e.fail(x, "unsupported call")
	}
	arg := func(i int) ast.Expr {
		if i >= len(x.Args) {
			e.fail(x, "%s: missing argument %d", id.Name, i)
		}
		return x.Args[i]
	}
	switch id.Name {
	case "old":
		oe := *e
		oe.heap = e.old
		if len(e.entry) > 0 {
			oe.vars = map[string]TV{}
			for k, v := range e.vars {
				oe.vars[k] = v
			}
			for k, v := range e.entry {
				oe.vars[k] = v
			}
		}
		return oe.tr(arg(0))
	case "implies":
		return TV{T: implies(e.trBool(arg(0)), e.trBool(arg(1))), S: stBool}
	case "iff":
		return TV{T: eq(e.trBool(arg(0)), e.trBool(arg(1))), S: stBool}
	case "ite":
		c := e.trBool(arg(0))
		a := e.tr(arg(1))
		b := e.tr(arg(2))
		a, b = e.coerceNil(a, b)
		return TV{T: app("ite", c, a.T, b.T), S: a.S}
	case "forall", "exists":
		return e.trQuant(id.Name, x)
	case "len":
		v := e.tr(arg(0))
		switch v.S.Sort {
		case "Slice":
			return TV{T: app("slen", v.T), S: stInt}
		case "Str":
			return TV{T: app("strlen", v.T), S: stInt}
		}
		if v.S.Go != nil {
			if mt, ok := types.Unalias(v.S.Go).Underlying().(*types.Map); ok {
				ks, vs := sortOf(mt.Key()), sortOf(mt.Elem())
				md := vc.hget(e.heap, mapDomArr(ks, vs), mapDomSort(ks))
				return TV{T: app("ite", eq(v.T, "0"), "0", app(vc.maplenFun(ks), app("select", md, v.T))), S: stInt}
			}
		}
		e.fail(x, "len of %s", v.S.Sort)
	case "store":
		m := e.tr(arg(0))
		k := e.tr(arg(1))
		v := e.tr(arg(2))
		if m.S.Key == nil {
			e.fail(x, "store on non-map")
		}
		if v.IsNil {
			v = nilOf(m.S.Elem, vc)
		}
		return TV{T: app("store", m.T, k.T, v.T), S: m.S}
	case "in":
		// in(k, goMap) : domain membership of a Go map
		k := e.tr(arg(0))
		m := e.tr(arg(1))
		if m.S.Go != nil {
			if mt, ok := types.Unalias(m.S.Go).Underlying().(*types.Map); ok {
				ks := sortOf(mt.Key())
				md := vc.hget(e.heap, mapDomArr(ks, sortOf(mt.Elem())), mapDomSort(ks))
				// a nil map has no entries
				return TV{T: and(not(eq(m.T, "0")), app("select", app("select", md, m.T), k.T)), S: stBool}
			}
		}
		if m.S.Key != nil && m.S.Elem.Sort == "Bool" {
			return TV{T: app("select", m.T, k.T), S: stBool}
		}
		e.fail(x, "in: second argument is not a map")
	case "zero":
		t := e.resolveType(arg(0))
		return TV{T: vc.zeroSpec(t.Sort), S: t}
	case "dyn":
		v := e.tr(arg(0))
		return TV{T: app("dyn", v.T), S: &SType{Sort: "Int"}}
	case "payload":
		v := e.tr(arg(0))
		return TV{T: app("pl", v.T), S: &SType{Sort: "Int"}}
	case "typeIs":
		v := e.tr(arg(0))
		t := e.resolveGoType(arg(1))
		return TV{T: and(not(eq(v.T, "iface_nil")), eq(app("dyn", v.T), intLit(int64(vc.typeID(t.Go))))), S: stBool}
	case "typeid":
		t := e.resolveType(arg(0))
		return TV{T: intLit(int64(vc.typeID(t.Go))), S: &SType{Sort: "Int"}}
	case "implements":
		v := e.tr(arg(0))
		t := e.resolveType(arg(1))
		if v.S.Sort != "Iface" {
			e.fail(x, "implements: not an interface value")
		}
		return TV{T: and(not(eq(v.T, "iface_nil")), app("implements", app("dyn", v.T), intLit(int64(vc.typeID(t.Go))))), S: stBool}
	case "toany":
		// toany(x): the interface value obtained by converting x to any
		v := e.tr(arg(0))
		return TV{T: vc.toAny(v.T, v.S.Go), S: goSType(types.NewInterfaceType(nil, nil))}
	case "asType":
		// asType(x, T): x.(T) assuming it succeeds
		v := e.tr(arg(0))
		t := e.resolveGoType(arg(1))
		if _, isI := t.Go.Underlying().(*types.Interface); isI {
			return TV{T: v.T, S: t}
		}
		return TV{T: vc.d.unbox(t.Sort, app("pl", v.T)), S: t}
	case "fresh":
		v := e.tr(arg(0))
		t := v.T
		if v.S.Sort == "Slice" {
			t = app("sid", v.T)
		}
		if v.S.Sort == "Iface" {
			t = app("pl", v.T)
		}
		return TV{T: app(">", t, vc.hget(e.old, "top", "Int")), S: stBool}
	case "allocated":
		v := e.tr(arg(0))
		t := v.T
		if v.S.Sort == "Slice" {
			t = app("sid", v.T)
		}
		if v.S.Sort == "Iface" {
			t = app("pl", v.T)
		}
		return TV{T: app("<=", t, vc.hget(e.heap, "top", "Int")), S: stBool}
	case "call":
		// call(f, args...) : application of a pure function value
		f := e.tr(arg(0))
		sig, ok := types.Unalias(f.S.Go).Underlying().(*types.Signature)
		if !ok {
			e.fail(x, "call: not a function value")
		}
		var ts []Term
		ts = append(ts, f.T)
		for _, a := range x.Args[1:] {
			ts = append(ts, e.tr(a).T)
		}
		return TV{T: app(vc.applyFun(sig, e.tparams), ts...), S: goSType(sig.Results().At(0).Type())}
	case "tag":
		// tag(s, i): ghost slot tag of element i of slice s
		v := e.tr(arg(0))
		i := e.tr(arg(1))
		if v.S.Sort != "Slice" {
			e.fail(x, "tag: not a slice")
		}
		return TV{T: app("select", app("select", vc.hget(e.heap, "Tags", tagsSort), app("sid", v.T)), app("idx", v.T, i.T)), S: stInt}
	case "oldmapskept":
		// oldmapskept(map[K]V): every Go map of that type that existed in the old state has its old contents
		mt, ok := arg(0).(*ast.MapType)
		if !ok {
			e.fail(x, "oldmapskept(map[K]V)")
		}
		kt, vt := e.resolveGoType(mt.Key), e.resolveGoType(mt.Value)
		ks, vs := kt.Sort, vt.Sort
		md := vc.hget(e.heap, mapDomArr(ks, vs), mapDomSort(ks))
		mv := vc.hget(e.heap, mapValArr(ks, vs), mapValSort(ks, vs))
		omd := vc.hget(e.old, mapDomArr(ks, vs), mapDomSort(ks))
		omv := vc.hget(e.old, mapValArr(ks, vs), mapValSort(ks, vs))
		otop := vc.hget(e.old, "top", "Int")
		return TV{T: fmt.Sprintf("(forall ((mx Int)) (! (=> (and (< 0 mx) (<= mx %s)) (and (= (select %s mx) (select %s mx)) (= (select %s mx) (select %s mx)))) :pattern ((select %s mx)) :pattern ((select %s mx))))", otop, md, omd, mv, omv, md, mv), S: stBool}
	case "card":
		// card(set): cardinality of a logical set (Array K Bool), e.g. card(mapdom(m)) == len(m), card(_visited)
		sv := e.tr(arg(0))
		parts := arraySorts(sv.S.Sort)
		if parts == nil || parts[1] != "Bool" {
			e.fail(x, "card: not a set")
		}
		return TV{T: app(vc.maplenFun(parts[0]), sv.T), S: stInt}
	case "forkarg":
		// forkarg(k, name): argument "name" given to the k-th forked thread (the function's unique thread closure)
		kk := e.tr(arg(0))
		nm, ok := arg(1).(*ast.Ident)
		if !ok {
			e.fail(x, "forkarg(k, paramName)")
		}
		root := vc.fn
		if e.fnCtx != nil {
			root = e.fnCtx
		}
		for root != nil && root.Parent() != nil {
			root = root.Parent()
		}
		for _, af := range root.AnonFuncs {
			if c := vc.lookupContract(funcKey(af)); c != nil && c.Thread {
				for _, p := range af.Params {
					if p.Name() == nm.Name {
						s := sortOf(p.Type())
						return TV{T: app("select", vc.hget(e.heap, forkArgArr(af, p.Name()), arrSort(s)), kk.T), S: goSType(p.Type())}
					}
				}
			}
		}
		e.fail(x, "forkarg: no thread closure parameter %s", nm.Name)
	case "oldat", "oldtag":
		// oldat(s, i) / oldtag(s, i): element / ghost tag i of slice s in the old state, the index taken in the current state
		v := e.tr(arg(0))
		i := e.tr(arg(1))
		u, ok := types.Unalias(v.S.Go).Underlying().(*types.Slice)
		if !ok {
			e.fail(x, "%s: not a slice", id.Name)
		}
		if id.Name == "oldtag" {
			return TV{T: app("select", app("select", vc.hget(e.old, "Tags", tagsSort), app("sid", v.T)), app("idx", v.T, i.T)), S: stInt}
		}
		es := sortOf(u.Elem())
		el := vc.hget(e.old, elemsArr(es), elemsSort(es))
		return TV{T: app("select", app("select", el, app("sid", v.T)), app("idx", v.T, i.T)), S: goSType(u.Elem())}
	case "substr":
		sv := e.tr(arg(0))
		lo := e.tr(arg(1))
		hi := e.tr(arg(2))
		vc.declStrSub()
		return TV{T: app("str_sub", sv.T, lo.T, hi.T), S: sv.S}
	case "mapdom", "mapval":
		m := e.tr(arg(0))
		mt, ok := types.Unalias(m.S.Go).Underlying().(*types.Map)
		if !ok {
			e.fail(x, "%s: not a Go map", id.Name)
		}
		ks, vs := sortOf(mt.Key()), sortOf(mt.Elem())
		if id.Name == "mapdom" {
			md := vc.hget(e.heap, mapDomArr(ks, vs), mapDomSort(ks))
			return TV{T: app("select", md, m.T), S: &SType{Sort: fmt.Sprintf("(Array %s Bool)", ks), Key: goSType(mt.Key()), Elem: stBool}}
		}
		mv := vc.hget(e.heap, mapValArr(ks, vs), mapValSort(ks, vs))
		return TV{T: app("select", mv, m.T), S: &SType{Sort: fmt.Sprintf("(Array %s %s)", ks, vs), Key: goSType(mt.Key()), Elem: goSType(mt.Elem())}}
	case "top":
		return TV{T: vc.hget(e.heap, "top", "Int"), S: &SType{Sort: "Int"}}
	case "backing":
		v := e.tr(arg(0))
		if v.S.Sort != "Slice" {
			e.fail(x, "backing: not a slice")
		}
		return TV{T: app("sid", v.T), S: &SType{Sort: "Int"}}
	case "callpre":
		f := e.tr(arg(0))
		sig, ok := types.Unalias(f.S.Go).Underlying().(*types.Signature)
		if !ok {
			e.fail(x, "callpre: not a function value")
		}
		ts := []Term{f.T}
		for _, a := range x.Args[1:] {
			ts = append(ts, e.tr(a).T)
		}
		return TV{T: app(vc.applyPreFun(sig), ts...), S: stBool}
	case "elems":
		// elems(s): the logical array of a slice's backing store, for frame targets
		v := e.tr(arg(0))
		u := types.Unalias(v.S.Go).Underlying().(*types.Slice)
		es := sortOf(u.Elem())
		el := vc.hget(e.heap, elemsArr(es), elemsSort(es))
		return TV{T: app("select", el, app("sid", v.T)), S: &SType{Sort: fmt.Sprintf("(Array Int %s)", es), Key: stInt, Elem: goSType(u.Elem())}}
	}
	if sf, ok := vc.specs.SpecFuncs[id.Name]; ok {
		var args []TV
		for _, a := range x.Args {
			args = append(args, e.tr(a))
		}
		return e.applySpecFunc(sf, args, x)
	}
	e.fail(x, "unknown function %s", id.Name)
	return TV{}
}

// tryPureMethod expands v.M(args) when M has a contract marked pure with an ensures clause "result == E".
func (e *Env) tryPureMethod(sel *ast.SelectorExpr, call *ast.CallExpr) (TV, bool) {
	vc := e.vc
	if id, ok := sel.X.(*ast.Ident); ok {
		if _, isVar := e.vars[id.Name]; !isVar {
			if e.locals == nil {
				if e.lookupObj(id.Name) == nil && e.lookupPkgByName(id.Name) != nil {
					return TV{}, false
				}
			} else if _, isLocal := e.locals(e, id.Name); !isLocal && e.lookupObj(id.Name) == nil {
				return TV{}, false
			}
		}
	}
	var base TV
	func() {
		defer func() {
			if r := recover(); r != nil {
				if _, ok := r.(specError); ok {
					base = TV{}
					return
				}
				panic(r)
			}
		}()
		base = e.tr(sel.X)
	}()
	if base.S == nil || base.S.Go == nil {
		return TV{}, false
	}
	obj, _, _ := types.LookupFieldOrMethod(base.S.Go, true, nil, sel.Sel.Name)
	if obj == nil {
		obj, _, _ = types.LookupFieldOrMethod(base.S.Go, true, pkgTypes(e.pkg), sel.Sel.Name)
	}
	if obj == nil {
		// unexported method of another package
		obj = lookupMethodAnyPkg(base.S.Go, sel.Sel.Name)
	}
	m, ok := obj.(*types.Func)
	if !ok {
		return TV{}, false
	}
	key := ifaceMethodKey(m.Origin())
	c := vc.specs.Contracts[key]
	if c == nil || !c.Pure {
		e.fail(call, "method %s has no pure contract (key %s)", sel.Sel.Name, key)
	}
	sig := m.Type().(*types.Signature)
	ce := &Env{vc: vc, pkg: c.Pkg, vars: map[string]TV{}, heap: e.heap, old: e.old, depth: e.depth}
	recvName := c.RecvName
	if !c.IsMethod && sig.Recv() != nil && sig.Recv().Name() != "" {
		recvName = sig.Recv().Name()
	}
	// navigate embedded receivers: evaluate the receiver expression of the promoted method
	recv := base
	if _, path, _ := types.LookupFieldOrMethod(base.S.Go, true, m.Pkg(), sel.Sel.Name); len(path) > 1 {
		for _, idx := range path[:len(path)-1] {
			recv = vc.stepField(e.heap, recv, idx)
		}
	}
	ce.vars[recvName] = recv
	if _, named, _ := ownerKeyOf(recv.S.Go); named != nil {
		ce.tparams = e.typeArgEnv(named)
	}
	for i, a := range call.Args {
		if i < sig.Params().Len() {
			ce.vars[sig.Params().At(i).Name()] = e.tr(a)
		}
	}
	for _, cl := range c.Ensures {
		if be, ok := cl.Expr.(*ast.BinaryExpr); ok && be.Op == token.EQL {
			if rid, ok := be.X.(*ast.Ident); ok && (rid.Name == "result" || rid.Name == "result0") {
				return ce.tr(be.Y), true
			}
		}
	}
	// pure without defining equation: uninterpreted function of receiver and arguments
	res := goSType(sig.Results().At(0).Type())
	sorts := []Sort{recv.S.Sort}
	ts := []Term{recv.T}
	for i := range call.Args {
		v := ce.vars[sig.Params().At(i).Name()]
		sorts = append(sorts, v.S.Sort)
		ts = append(ts, v.T)
	}
	fn := vc.pmFun(key, sorts, res.Sort)
	return TV{T: app(fn, ts...), S: res}, true
}

// pmFun declares the uninterpreted function standing for a pure interface method. Implementations that are verified
// to return a constant (pure + implements + "ensures result == <constant>") contribute one axiom each: for receivers of
// that dynamic type the method's value is the constant.
func (vc *VC) pmFun(key string, sorts []Sort, res Sort) string {
	fn := "pm_" + sanitize(shortKey(key))
	if vc.d.seen["decl_"+fn] {
		return fn
	}
	vc.d.seen["decl_"+fn] = true
	vc.d.declFun(fn, sorts, res)
	if len(sorts) != 1 || sorts[0] != "Iface" {
		return fn
	}
	if vc.w.fnCache == nil {
		vc.w.fnCache = vc.w.repoFunctions()
	}
	for _, k := range sortedKeys(vc.specs.Contracts) {
		c := vc.specs.Contracts[k]
		if c.IsMethod || !c.Pure || c.Implement == "" {
			continue
		}
		i := strings.LastIndex(k, ".")
		if i < 0 || "("+qualifyTypeName(c.Implement, c.Pkg, vc.w)+")"+k[i:] != key {
			continue
		}
		f := vc.w.fnCache[k]
		if f == nil || f.Signature.Recv() == nil {
			continue
		}
		for _, cl := range c.Ensures {
			be, ok := cl.Expr.(*ast.BinaryExpr)
			if !ok || be.Op != token.EQL {
				continue
			}
			if rid, ok := be.X.(*ast.Ident); !ok || (rid.Name != "result" && rid.Name != "result0") {
				continue
			}
			var val Term
			func() {
				defer func() {
					if r := recover(); r != nil {
						if _, ok := r.(specError); !ok {
							panic(r)
						}
					}
				}()
				ce := &Env{vc: vc, pkg: c.Pkg, vars: map[string]TV{}, heap: newHeap(), old: newHeap()}
				val = ce.tr(be.Y).T
			}()
			if val == "" {
				continue
			}
			tid := vc.typeID(f.Signature.Recv().Type())
			vc.d.axiom(fmt.Sprintf("(forall ((x Iface)) (! (=> (and (not (= x iface_nil)) (= (dyn x) %d)) (= (%s x) %s)) :pattern ((%s x))))", tid, fn, val, fn))
			vc.usedTrusted["pure-definition "+shortFuncKey(k)+" (proved on its body)"] = true
		}
	}
	return fn
}

func lookupMethodAnyPkg(t types.Type, name string) types.Object {
	ms := types.NewMethodSet(t)
	for i := 0; i < ms.Len(); i++ {
		if ms.At(i).Obj().Name() == name {
			return ms.At(i).Obj()
		}
	}
	if _, ok := t.Underlying().(*types.Pointer); !ok {
		ms = types.NewMethodSet(types.NewPointer(t))
		for i := 0; i < ms.Len(); i++ {
			if ms.At(i).Obj().Name() == name {
				return ms.At(i).Obj()
			}
		}
	}
	return nil
}

// stripBinder removes the occurrences of one bound variable name (to see whether others remain).
func stripBinder(f Term, vn string) Term { return strings.ReplaceAll(f, vn, "") }

var quantCounter int

func (e *Env) trQuant(kind string, x *ast.CallExpr) TV {
	if len(x.Args) < 3 {
		e.fail(x, "%s(x, T, body [, patterns...])", kind)
	}
	id, ok := x.Args[0].(*ast.Ident)
	if !ok {
		e.fail(x, "quantifier variable must be an identifier")
	}
	st := e.resolveType(x.Args[1])
	e.vc.d.declSort(st.Sort)
	quantCounter++
	vn := fmt.Sprintf("%s_q%d", id.Name, quantCounter)
	ce := e.child()
	var qf []Term
	ce.qfacts = &qf
	ce.vars[id.Name] = TV{T: vn, S: st}
	body := ce.trBool(x.Args[2])
	if len(qf) > 0 {
		// well-typedness facts about reads that depend on the bound variable: true for every value of the variable, so
		// they are stated as separate quantified facts (hoisted to the enclosing level), never mixed into the body
		seen := map[Term]bool{}
		for _, f := range qf {
			if seen[f] {
				continue
			}
			seen[f] = true
			pat := ""
			if i := strings.Index(f, "\x00"); i >= 0 {
				pat, f = f[:i], f[i+1:]
			}
			if strings.Contains(f, vn) {
				if pat != "" && strings.Contains(pat, vn) && !strings.Contains(pat, "(ite ") {
					f = fmt.Sprintf("(forall ((%s %s)) (! %s :pattern (%s)))", vn, st.Sort, f, pat)
				} else {
					f = fmt.Sprintf("(forall ((%s %s)) %s)", vn, st.Sort, f)
				}
			} else if pat != "" {
				f = pat + "\x00" + f // keep the trigger for an enclosing binder
			}
			if boundVarRe.MatchString(stripBinder(f, vn)) {
				if e.qfacts != nil {
					*e.qfacts = append(*e.qfacts, f)
				}
			} else if e.facts != nil {
				if i := strings.Index(f, "\x00"); i >= 0 {
					f = f[i+1:]
				}
				*e.facts = append(*e.facts, f)
			}
		}
	}
	var pats []string
	for _, p := range x.Args[3:] {
		// a pattern argument may be a multi-pattern written as pat(a, b)
		if call, ok := p.(*ast.CallExpr); ok {
			if fid, ok := call.Fun.(*ast.Ident); ok && fid.Name == "pat" {
				var parts []string
				for _, a := range call.Args {
					parts = append(parts, ce.tr(a).T)
				}
				pats = append(pats, "("+strings.Join(parts, " ")+")")
				continue
			}
		}
		pt := ce.tr(p).T
		if strings.Contains(pt, "(ite ") || strings.Contains(pt, "(not ") || strings.Contains(pt, "(and ") || strings.Contains(pt, "(or ") || strings.Contains(pt, "(=> ") {
			continue // not a legal trigger (model field expanded to a conditional): let the solver choose
		}
		pats = append(pats, "("+pt+")")
	}
	q := "forall"
	if kind == "exists" {
		q = "exists"
	}
	var t Term
	if len(pats) > 0 {
		ps := ""
		for _, p := range pats {
			ps += " :pattern " + p
		}
		t = fmt.Sprintf("(%s ((%s %s)) (! %s%s))", q, vn, st.Sort, body, ps)
	} else {
		t = fmt.Sprintf("(%s ((%s %s)) %s)", q, vn, st.Sort, body)
	}
	return TV{T: t, S: stBool}
}
