package main

// Termination of recursion.
//
// A contract may carry "decreases e1, e2, ...": a lexicographic tuple of integers (booleans count as 0/1) evaluated in
// the function's entry state. The rule is the usual one for mutually recursive procedures:
//
//   - a call graph over the repository's functions is built once per run from the SSA bodies: static calls, interface
//     method invocations (to the method node, and from the method node to every method of a repository type that
//     implements the interface), closure creation (creator -> closure) and calls through function values (to every
//     function or closure of the same signature whose value is taken somewhere): a class-hierarchy style
//     over-approximation, independent of what the contracts say;
//   - a callee that can reach the caller again (same strongly connected component) is a recursive call; at every such
//     call site of a function that states a measure, the callee's measure evaluated in the call state (from the
//     callee's own contract, or the interface-level contract for an invocation) must be lexicographically smaller than
//     the caller's entry measure, the deciding component being bounded below by zero ([decreases@callee]);
//   - a callee of the same component without a measure fails that obligation outright, and so does a function that
//     says "terminates" but makes a recursive call without stating a measure;
//   - closures handed out as interface callbacks state their own measure; where they are created it is shown to be
//     at most the interface-level measure ([callback-measure]), because the caller only sees the interface contract;
//   - implementations ("implements I") inherit the interface-level measure.
//
// "terminates" additionally asks every callee to be known to terminate: it says terminates / decreases itself, or is
// pure, effect free, or trusted library code (A-LIB: library functions return).

import (
	"fmt"
	"go/types"
	"sort"
	"strings"

	"golang.org/x/tools/go/ssa"
)

type termGraph struct {
	edges map[string]map[string]bool
	comp  map[string]int
	size  map[int]int
	self  map[string]bool
}

func sigNode(sig *types.Signature) string {
	plain := types.NewSignatureType(nil, nil, nil, sig.Params(), sig.Results(), sig.Variadic())
	return "dyn:" + types.TypeString(plain, nil)
}

func (g *termGraph) add(a, b string) {
	if g.edges[a] == nil {
		g.edges[a] = map[string]bool{}
	}
	if g.edges[b] == nil {
		g.edges[b] = map[string]bool{}
	}
	g.edges[a][b] = true
	if a == b {
		g.self[a] = true
	}
}

func buildTermGraph(w *World) *termGraph {
	g := &termGraph{edges: map[string]map[string]bool{}, comp: map[string]int{}, size: map[int]int{}, self: map[string]bool{}}
	fns := w.repoFunctions()
	type ifm struct {
		key    string
		method *types.Func
	}
	ifaceMethods := map[string]ifm{}
	for _, key := range sortedKeys(fns) {
		fn := fns[key]
		for _, b := range fn.Blocks {
			for _, ins := range b.Instrs {
				// function values taken (not called): they may flow to any dynamic call of their signature
				var ops []*ssa.Value
				ops = ins.Operands(ops)
				var calleeVal ssa.Value
				if ci, ok := ins.(ssa.CallInstruction); ok {
					cc := ci.Common()
					calleeVal = cc.Value
					switch {
					case cc.IsInvoke():
						k := ifaceMethodKey(cc.Method)
						g.add(key, k)
						ifaceMethods[k] = ifm{k, cc.Method}
					case cc.StaticCallee() != nil:
						g.add(key, funcKey(cc.StaticCallee()))
					default:
						if _, isBuiltin := cc.Value.(*ssa.Builtin); !isBuiltin {
							g.add(key, sigNode(cc.Signature()))
						}
					}
				}
				if mc, ok := ins.(*ssa.MakeClosure); ok {
					cf := mc.Fn.(*ssa.Function)
					g.add(key, funcKey(cf))
					g.add(sigNode(cf.Signature), funcKey(cf))
				}
				for _, op := range ops {
					if op == nil || *op == nil {
						continue
					}
					if f, ok := (*op).(*ssa.Function); ok && *op != calleeVal {
						g.add(sigNode(f.Signature), funcKey(f))
						// whoever takes the function's value may (have someone) call it: like closure creation
						g.add(key, funcKey(f))
					}
				}
			}
		}
	}
	// interface method -> methods of repository types implementing the interface
	for _, k := range sortedKeys(ifaceMethods) {
		m := ifaceMethods[k].method
		sig := m.Type().(*types.Signature)
		if sig.Recv() == nil {
			continue
		}
		it, ok := types.Unalias(sig.Recv().Type()).Underlying().(*types.Interface)
		if !ok {
			continue
		}
		for _, pk := range sortedKeys(w.SSAPkgs) {
			sp := w.SSAPkgs[pk]
			if !isRepoPkg(pk) {
				continue
			}
			for _, mn := range sortedKeys(sp.Members) {
				tm, ok := sp.Members[mn].(*ssa.Type)
				if !ok {
					continue
				}
				named, ok := tm.Type().(*types.Named)
				if !ok || named.TypeParams().Len() > 0 {
					continue
				}
				if _, isIface := named.Underlying().(*types.Interface); isIface {
					continue
				}
				for _, rt := range []types.Type{named, types.NewPointer(named)} {
					if !types.Implements(rt, it) {
						continue
					}
					sel := w.Prog.MethodSets.MethodSet(rt).Lookup(m.Pkg(), m.Name())
					if sel == nil {
						continue
					}
					if mf := w.Prog.MethodValue(sel); mf != nil {
						// promoted methods arrive as wrappers: follow them to the declared method
						g.add(k, funcKey(declaredMethod(mf)))
					}
					break
				}
			}
		}
	}
	g.tarjan()
	return g
}

// declaredMethod: the source-level method a synthetic wrapper (promotion through embedding, pointer receiver
// wrapper) ends up calling.
func declaredMethod(f *ssa.Function) *ssa.Function {
	for depth := 0; depth < 8 && f != nil && f.Synthetic != "" && f.Origin() == nil; depth++ {
		var next *ssa.Function
		for _, b := range f.Blocks {
			for _, ins := range b.Instrs {
				if c, ok := ins.(ssa.CallInstruction); ok {
					if sc := c.Common().StaticCallee(); sc != nil {
						next = sc
					}
				}
			}
		}
		if next == nil {
			return f
		}
		f = next
	}
	return f
}

func (g *termGraph) tarjan() {
	index := 0
	idx := map[string]int{}
	low := map[string]int{}
	on := map[string]bool{}
	var stack []string
	nc := 0
	var nodes []string
	for n := range g.edges {
		nodes = append(nodes, n)
	}
	sort.Strings(nodes)
	// iterative Tarjan (the graph has a few thousand nodes; recursion depth could be large)
	type frame struct {
		n    string
		succ []string
		i    int
	}
	for _, root := range nodes {
		if _, seen := idx[root]; seen {
			continue
		}
		var fs []*frame
		push := func(n string) {
			idx[n] = index
			low[n] = index
			index++
			stack = append(stack, n)
			on[n] = true
			var ss []string
			for s := range g.edges[n] {
				ss = append(ss, s)
			}
			sort.Strings(ss)
			fs = append(fs, &frame{n: n, succ: ss})
		}
		push(root)
		for len(fs) > 0 {
			f := fs[len(fs)-1]
			if f.i < len(f.succ) {
				s := f.succ[f.i]
				f.i++
				if _, seen := idx[s]; !seen {
					push(s)
				} else if on[s] && idx[s] < low[f.n] {
					low[f.n] = idx[s]
				}
				continue
			}
			fs = fs[:len(fs)-1]
			if len(fs) > 0 {
				p := fs[len(fs)-1]
				if low[f.n] < low[p.n] {
					low[p.n] = low[f.n]
				}
			}
			if low[f.n] == idx[f.n] {
				for {
					t := stack[len(stack)-1]
					stack = stack[:len(stack)-1]
					on[t] = false
					g.comp[t] = nc
					g.size[nc]++
					if t == f.n {
						break
					}
				}
				nc++
			}
		}
	}
}

// recursive reports whether a call from caller to callee may come back to caller.
func (g *termGraph) recursive(caller, callee string) bool {
	ca, ok1 := g.comp[caller]
	cb, ok2 := g.comp[callee]
	if !ok1 || !ok2 || ca != cb {
		return false
	}
	return g.size[ca] > 1 || g.self[caller]
}

// group: the members of the caller's component (for messages and evidence).
func (g *termGraph) group(n string) []string {
	c, ok := g.comp[n]
	if !ok {
		return nil
	}
	var out []string
	for k, v := range g.comp {
		if v == c {
			out = append(out, k)
		}
	}
	sort.Strings(out)
	return out
}

var termGraphCache = map[*World]*termGraph{}

func (vc *VC) termGraph() *termGraph {
	if g, ok := termGraphCache[vc.w]; ok {
		return g
	}
	g := buildTermGraph(vc.w)
	termGraphCache[vc.w] = g
	return g
}

// trMeasure: one component of a measure as an integer term.
func (vc *VC) trMeasure(env *Env, c *Clause) Term {
	e2 := *env
	if c.Pkg != nil {
		e2.pkg = c.Pkg
	}
	var facts []Term
	e2.facts = &facts
	tv := e2.tr(c.Expr)
	if len(facts) > 0 && vc.curState != nil {
		vc.curState.assume = append(vc.curState.assume, facts...)
	}
	if tv.S.Sort == "Bool" {
		return fmt.Sprintf("(ite %s 1 0)", tv.T)
	}
	if tv.S.Sort != "Int" {
		panic(specError{"decreases: component " + c.Src + " is neither an integer nor a boolean"})
	}
	return tv.T
}

func padMeasure(a, b []Term) ([]Term, []Term) {
	for len(a) < len(b) {
		a = append(a, "0")
	}
	for len(b) < len(a) {
		b = append(b, "0")
	}
	return a, b
}

// lexLess: callee < caller in the lexicographic order on tuples of integers, the deciding component of the caller
// being non-negative (so the order is well founded).
func lexLess(callee, caller []Term) Term {
	callee, caller = padMeasure(callee, caller)
	var alts []Term
	for i := range caller {
		var cs []Term
		for j := 0; j < i; j++ {
			cs = append(cs, eq(callee[j], caller[j]))
		}
		cs = append(cs, app("<", callee[i], caller[i]), app("<=", "0", caller[i]))
		alts = append(alts, and(cs...))
	}
	if len(alts) == 0 {
		return "false"
	}
	return or(alts...)
}

func lexLessEq(a, b []Term) Term {
	a, b = padMeasure(a, b)
	var cs []Term
	for i := range a {
		cs = append(cs, eq(a[i], b[i]))
	}
	return or(lexLess(a, b), and(cs...))
}

func measureSrc(cs []*Clause) string {
	var parts []string
	for _, c := range cs {
		parts = append(parts, c.Src)
	}
	return strings.Join(parts, ", ")
}

// termNode: the call-graph node a call site goes to.
func (vc *VC) termNode(ci *calleeInfo) string {
	if ci.fn != nil {
		return funcKey(ci.fn)
	}
	g := vc.termGraph()
	if _, ok := g.comp[ci.key]; ok && strings.HasPrefix(ci.key, "(") {
		return ci.key
	}
	if ci.sig != nil {
		return sigNode(ci.sig)
	}
	return ci.key
}

// calleeTerminates: is the callee known to terminate (for callers that say "terminates")?
func calleeTerminates(c *Contract) bool {
	return c.Terminates || len(c.Decreases) > 0 || c.Trusted || c.Pure
}

// measureCheck runs at every call site with a contract, after the callee's preconditions: env is the callee's
// environment in the call state.
func (vc *VC) measureCheck(st *State, ci *calleeInfo, env *Env, site string) {
	eff := vc.effective
	if eff == nil || (len(eff.Decreases) == 0 && !eff.Terminates) {
		return
	}
	c := ci.contract
	short := shortFuncKey(ci.key)
	if eff.Terminates {
		goal, why := "true", "the callee's contract says terminates or decreases"
		switch {
		case !calleeTerminates(c):
			goal, why = "false", "the callee is known to terminate (its contract says terminates or decreases, or it is pure or trusted library code)"
		case c.Trusted:
			why = "trusted library code (A-LIB: library functions return)"
			vc.usedTrusted["A-LIB-TERMINATES: "+short+" returns"] = true
		case c.IsMethod || strings.Contains(ci.key, "#") || strings.HasPrefix(ci.key, "functype ") || strings.HasPrefix(ci.key, "fieldfunc "):
			why = "interface-level / callback contract says terminates: proved for the repository's implementations, A-CALLBACK for user code"
		case c.Pure && !c.Terminates && len(c.Decreases) == 0:
			why = "pure function (loop free or specification only)"
		}
		vc.oblige(st, goal, "terminates:callee "+short, "termination", site, vc.props(), why, ci.key)
	}
	node := vc.termNode(ci)
	if !vc.termGraph().recursive(vc.key, node) {
		return
	}
	vc.recursiveCalls++
	if len(eff.Decreases) == 0 {
		vc.oblige(st, "false", "decreases@"+short, "termination", site, vc.props(),
			"the call can reach "+shortFuncKey(vc.key)+" again (recursive group), and the function says terminates without stating a measure", ci.key)
		return
	}
	if len(c.Decreases) == 0 {
		vc.oblige(st, "false", "decreases@"+short, "termination", site, vc.props(),
			"the callee is in the same recursive group as "+shortFuncKey(vc.key)+" and states a measure (it has none)", ci.key)
		return
	}
	var callee []Term
	for _, d := range c.Decreases {
		callee = append(callee, vc.trMeasure(env, d))
	}
	vc.oblige(st, lexLess(callee, vc.entryMeasure), "decreases@"+short, "termination", site, vc.props(),
		"("+measureSrc(c.Decreases)+") of the callee in the call state  <  ("+measureSrc(eff.Decreases)+") at entry", ci.key)
}
