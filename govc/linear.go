package main

import (
	"fmt"

	"golang.org/x/tools/go/ssa"
)

// Linearizability of a method built from atomic primitives, by contracts.
//
// A contract marked `linearizable` is verified under interference: immediately before every call of an `atomic`
// primitive the shared abstract state (clause `shared ...`) is havocked - other threads may have run - and the object
// invariants are re-assumed. The method's postcondition is then evaluated with old(...) denoting the state right before
// the LAST primitive call of the path (its linearization point) instead of the entry state, and every earlier primitive
// call of the path must have left the shared state untouched (obligation [only-last-action-writes]). If all obligations
// hold, every execution of the method takes effect atomically at that call, with the result the sequential contract
// prescribes for the state at that moment, whatever other threads do in between: the method is linearizable with
// respect to its sequential contract. `object-invariant` clauses are assumed at entry and proved at every return.

type lpState struct {
	pre     *Heap // state right before the last primitive call (after the interference havoc)
	assigns []LV  // what that primitive may write
}

func (vc *VC) linearMode() bool {
	return vc.effective != nil && vc.effective.Linearizable
}

// beforeAtomic runs before a call of an atomic primitive inside a linearizable method.
func (vc *VC) beforeAtomic(st *State, ci *calleeInfo, instr ssa.Instruction) {
	if !vc.linearMode() || ci.contract == nil || !(ci.contract.Atomic || ci.contract.Linearizable) {
		return
	}
	site := vc.siteOf(instr)
	// (1) the previous primitive of this path was a pure read
	if st.lp != nil {
		for _, lv := range st.lp.assigns {
			cur := vc.hget(st.heap, lv.Arr, lv.Sort)
			old := vc.hget(st.lp.pre, lv.Arr, lv.Sort)
			goal := eq(cur, old)
			if lv.Idx != "" {
				goal = eq(app("select", cur, lv.Idx), app("select", old, lv.Idx))
			}
			vc.oblige(st, goal, "only-last-action-writes:"+lv.Arr, "linearizable", site, vc.props(), "an atomic action followed by another atomic action on the same path leaves the shared state unchanged", ci.key)
		}
	}
	// (2) interference: other threads may have changed the shared state
	env := vc.fnEnvNames(st)
	for _, t := range vc.effective.Shared {
		for _, lv := range env.lvals(t.Expr) {
			if t.Any || lv.Idx == "" {
				vc.havocHeap(st, lv.Arr, lv.Sort)
				continue
			}
			cur := vc.hget(st.heap, lv.Arr, lv.Sort)
			vc.setHeap(st, lv.Arr, lv.Sort, app("store", cur, lv.Idx, vc.d.freshConst("interference", arraySorts(lv.Sort)[1])))
		}
	}
	env = vc.fnEnvNames(st)
	for _, inv := range vc.effective.ObjInvs {
		st.assume = append(st.assume, vc.trClause(env, inv))
	}
	// (3) candidate linearization point
	penv := vc.calleeEnv(ci, st.heap, st.heap)
	var lvs []LV
	for _, t := range ci.contract.Assigns {
		for _, lv := range penv.lvals(t.Expr) {
			if t.Any {
				lv.Idx = ""
			}
			lvs = append(lvs, lv)
		}
	}
	st.lp = &lpState{pre: st.heap.clone(), assigns: lvs}
}

// sharedArrays: heap arrays named by the shared clause (outside the sequential frame check).
func (vc *VC) sharedArrays(st *State) map[string]bool {
	out := map[string]bool{}
	if !vc.linearMode() {
		return out
	}
	env := vc.fnEnvNames(st)
	for _, t := range vc.effective.Shared {
		for _, lv := range env.lvals(t.Expr) {
			out[lv.Arr] = true
		}
	}
	return out
}

var _ = fmt.Sprintf
