package main

import (
	"bytes"
	"context"
	"fmt"
	"os"
	"os/exec"
	"path/filepath"
	"strings"
	"sync"
	"time"
)

type solverSpec struct {
	name string
	argv func(file string, timeoutS int) []string
	prep func(script string) string
}

var solvers = map[string]solverSpec{
	"z3-new": {name: "z3-new", argv: func(f string, t int) []string { return []string{"z3-new", fmt.Sprintf("-T:%d", t), f} }},
	"z3":     {name: "z3", argv: func(f string, t int) []string { return []string{"z3", fmt.Sprintf("-T:%d", t), f} }},
	"cvc5": {name: "cvc5", argv: func(f string, t int) []string {
		return []string{"cvc5", "--lang=smt2", fmt.Sprintf("--tlimit=%d", t*1000), "--enum-inst", f}
	}, prep: func(s string) string { return "(set-logic ALL)\n" + s }},
	"cvc5-default": {name: "cvc5-default", argv: func(f string, t int) []string {
		return []string{"cvc5", "--lang=smt2", fmt.Sprintf("--tlimit=%d", t*1000), f}
	}, prep: func(s string) string { return "(set-logic ALL)\n" + s }},
}

type solveResult struct {
	status string
	solver string
	ms     int64
	output string
}

func runSolver(sp solverSpec, dir string, id int, script string, timeoutS int) solveResult {
	if sp.prep != nil {
		script = sp.prep(script)
	}
	file := filepath.Join(dir, fmt.Sprintf("o%d_%s.smt2", id, sp.name))
	if err := os.WriteFile(file, []byte(script), 0o644); err != nil {
		return solveResult{status: "error", solver: sp.name, output: err.Error()}
	}
	defer os.Remove(file)
	argv := sp.argv(file, timeoutS)
	ctx, cancel := context.WithTimeout(context.Background(), time.Duration(timeoutS+5)*time.Second)
	defer cancel()
	cmd := exec.CommandContext(ctx, argv[0], argv[1:]...)
	var out bytes.Buffer
	cmd.Stdout = &out
	cmd.Stderr = &out
	t0 := time.Now()
	_ = cmd.Run()
	ms := time.Since(t0).Milliseconds()
	text := out.String()
	first := ""
	for _, ln := range strings.Split(text, "\n") {
		ln = strings.TrimSpace(ln)
		if ln == "" || strings.HasPrefix(ln, ";") {
			continue
		}
		first = ln
		break
	}
	st := "unknown"
	switch {
	case first == "unsat":
		st = "unsat"
	case first == "sat":
		st = "sat"
	case first == "unknown":
		st = "unknown"
	case strings.Contains(first, "timeout") || ctx.Err() != nil:
		st = "timeout"
	case strings.HasPrefix(first, "(error"):
		st = "error"
	}
	return solveResult{status: st, solver: sp.name, ms: ms, output: trunc(text, 2000)}
}

// discharge decides one obligation. Quick: first back end that answers unsat wins; a sat answer from the first
// back end is final. Thorough: additionally require a second, independent back end to agree on unsat.
func discharge(o *Obligation, dir string, id int, tier string, timeoutS int) {
	if o.Script == "" {
		return
	}
	order := []string{"z3-new", "cvc5", "z3"}
	var results []solveResult
	unsatBy := []string{}
	for _, name := range order {
		r := runSolver(solvers[name], dir, id, o.Script, timeoutS)
		results = append(results, r)
		if r.status == "unsat" {
			unsatBy = append(unsatBy, name)
			if tier != "thorough" || len(unsatBy) >= 2 {
				break
			}
			continue
		}
		if r.status == "sat" {
			break
		}
	}
	var total int64
	var outs []string
	final := "unknown"
	for _, r := range results {
		total += r.ms
		outs = append(outs, fmt.Sprintf("[%s %s %dms] %s", r.solver, r.status, r.ms, strings.TrimSpace(trunc(r.output, 300))))
		if r.status == "sat" {
			final = "sat"
		}
	}
	if len(unsatBy) > 0 && final != "sat" {
		final = "unsat"
	}
	if final == "unknown" {
		for _, r := range results {
			if r.status == "timeout" {
				final = "timeout"
			}
			if r.status == "error" {
				final = "error"
			}
		}
	}
	o.Status = final
	o.Solver = strings.Join(unsatBy, "+")
	if o.Solver == "" && len(results) > 0 {
		o.Solver = results[len(results)-1].solver
	}
	o.Ms = total
	o.Output = strings.Join(outs, "\n")
}

func dischargeAll(obls []*Obligation, tier string, timeoutS int, workers int) (string, error) {
	dir, err := os.MkdirTemp("", "govc-smt-")
	if err != nil {
		return "", err
	}
	defer os.RemoveAll(dir)
	var wg sync.WaitGroup
	ch := make(chan int)
	for w := 0; w < workers; w++ {
		wg.Add(1)
		go func() {
			defer wg.Done()
			for i := range ch {
				if obls[i].Status == "" {
					discharge(obls[i], dir, i, tier, timeoutS)
				}
			}
		}()
	}
	for i := range obls {
		ch <- i
	}
	close(ch)
	wg.Wait()
	return dir, nil
}
