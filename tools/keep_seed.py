#!/usr/bin/env python3
"""keep_seed.py <seed_out_dir> <seed-id> <property> [more...]: run try_seed.py on a sub-agent's delivery and, if it is a valid
seeded change (suite passes with it, demo fails with it and passes without it), store it as /verif/seeded/<seed-id>/."""
import json, os, subprocess, sys, shutil
d, sid, props = sys.argv[1].rstrip("/"), sys.argv[2], sys.argv[3:]
p = subprocess.run(["python3", "/verif/tools/try_seed.py", d] + props, capture_output=True, text=True)
txt = p.stdout
res = json.loads(txt[txt.index("{"):])
meta = json.load(open(f"{d}/meta.json"))
ok = res["suite_with_change"] == "pass" and res["demo_with_change"].startswith("fails") and res["demo_without_change"].startswith("passes")
print(json.dumps({k: res[k] for k in ("suite_with_change", "demo_with_change", "demo_without_change", "repo_clean_after")}))
if not ok:
    print("NOT KEPT"); sys.exit(1)
lines = [l for c in res["checks"].values() for l in c["lines"]]
det = any(c["exit"] != 0 for c in res["checks"].values())
obl = [l for l in lines if l.startswith("obligation")]
unb = [l for l in lines if l.startswith("UNBOUND")]
meta["source"] = "independent sub-agent given only the property text and a scratch worktree without /verif or the contract files"
meta["confirmed_by_main_session"] = res
meta["detected"] = det
meta["detected_by"] = (obl or unb)[:6]
meta["detection_kind"] = "semantic (named obligation fails)" if obl else ("structural (code left the contracted subset: UNBOUND)" if unb else "none")
out = f"/verif/seeded/{sid}"
os.makedirs(out, exist_ok=True)
shutil.copy(f"{d}/patch.diff", out)
shutil.copy(f"{d}/{os.path.basename(meta['demo_test_path'])}", out)
json.dump(meta, open(f"{out}/meta.json", "w"), indent=1)
print("kept", out, "detected" if det else "MISSED", meta["detection_kind"])
for l in meta["detected_by"]: print("  ", l[:200])
