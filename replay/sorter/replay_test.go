package framework_helper

// Replay driver for the ordering contract (C12): turns the probe values of a counter-model
// (n, class and Order() of the first elements) into a real slice, runs the real SortOrderedComponents and checks
// every clause of the ordering contract on the result. Injected with go test -overlay; never part of /repo.

import (
	"encoding/json"
	"fmt"
	"os"
	"strconv"
	"strings"
	"testing"
)

type rpPart interface{ id() int }
type rpPOC struct{ i, o int }
type rpOC struct{ i, o int }
type rpNC struct{ i int }

func (c rpPOC) id() int    { return c.i }
func (c rpPOC) Order() int { return c.o }
func (c rpPOC) Priority()  {}
func (c rpOC) id() int     { return c.i }
func (c rpOC) Order() int  { return c.o }
func (c rpNC) id() int     { return c.i }

func rpInt(s string) (int, bool) {
	s = strings.TrimSpace(s)
	s = strings.ReplaceAll(s, "(- ", "-")
	s = strings.Trim(s, "() ")
	s = strings.ReplaceAll(s, " ", "")
	v, err := strconv.ParseInt(s, 10, 64)
	return int(v), err == nil
}

func rpCls(p rpPart) int {
	if _, ok := p.(interface{ Order() int }); ok {
		if _, ok := p.(interface{ Priority() }); ok {
			return 0
		}
		return 1
	}
	return 2
}

func TestGovcReplaySorter(t *testing.T) {
	raw, err := os.ReadFile(os.Getenv("GOVC_REPLAY_JSON"))
	if err != nil {
		t.Skip("GOVC-REPLAY: SKIP no input")
	}
	var in struct {
		Label  string            `json:"label"`
		Probes map[string]string `json:"probes"`
	}
	if err := json.Unmarshal(raw, &in); err != nil {
		t.Skip("GOVC-REPLAY: SKIP bad input")
	}
	n, ok := rpInt(in.Probes["len_components"])
	if !ok || n < 0 || n > 64 {
		fmt.Println("GOVC-REPLAY: SKIP length not concretisable:", in.Probes["len_components"])
		t.Skip()
	}
	var input []rpPart
	for k := 0; k < n; k++ {
		cls, ok1 := rpInt(in.Probes[fmt.Sprintf("cls_%d", k)])
		ord, ok2 := rpInt(in.Probes[fmt.Sprintf("ord_%d", k)])
		if !ok1 {
			cls = 2
		}
		if !ok2 {
			ord = 0
		}
		switch cls {
		case 0:
			input = append(input, rpPOC{k, ord})
		case 1:
			input = append(input, rpOC{k, ord})
		default:
			input = append(input, rpNC{k})
		}
	}
	snapshot := append([]rpPart{}, input...)
	got := SortOrderedComponents(input)
	fmt.Printf("GOVC-REPLAY: input %v\nGOVC-REPLAY: output %v\n", snapshot, got)
	bad := func(f string, a ...any) {
		fmt.Println("GOVC-REPLAY: VIOLATION " + fmt.Sprintf(f, a...))
		t.Fail()
	}
	if len(got) != n {
		bad("[same-length] %d participants in, %d out", n, len(got))
	}
	seen := map[int]int{}
	for _, p := range got {
		seen[p.id()]++
	}
	for k := 0; k < n; k++ {
		if seen[k] != 1 {
			bad("[exactly-once] participant %d appears %d times", k, seen[k])
		}
		if input[k] != snapshot[k] {
			bad("[input-untouched] input position %d changed", k)
		}
	}
	for i := 0; i+1 < len(got); i++ {
		a, b := got[i], got[i+1]
		if rpCls(a) > rpCls(b) {
			bad("[classes-in-order] class %d before class %d at %d", rpCls(a), rpCls(b), i)
		}
		if rpCls(a) == rpCls(b) && rpCls(a) < 2 {
			if a.(interface{ Order() int }).Order() > b.(interface{ Order() int }).Order() {
				bad("[order-nondecreasing] Order %d before %d at %d", a.(interface{ Order() int }).Order(), b.(interface{ Order() int }).Order(), i)
			}
		}
		if rpCls(a) == 2 && rpCls(b) == 2 && a.id() > b.id() {
			bad("[unordered-keep-input-order] unordered %d before %d", a.id(), b.id())
		}
	}
	if !t.Failed() {
		fmt.Println("GOVC-REPLAY: OK the real code satisfies the ordering contract on this input")
	}
}
