package main

import (
	"regexp"
	"go/ast"
	"encoding/json"
	"flag"
	"fmt"
	"go/types"
	"os"
	"path/filepath"
	"runtime"
	"sort"
	"strings"
	"time"

	"golang.org/x/tools/go/ssa"
)

type funcResult struct {
	Key   string
	Obls  []*Obligation
	Err   string
	Trust []string
	Paths int
	Cone  bool // verified because it is in the callee cone of the property, not because it is claimed for it
}

// verifyFunction generates all obligations of one function under contract.
var unknownIdentRe = regexp.MustCompile(`unknown identifier (\w+)`)

// rebindAliases is consulted by newVC (one verification unit at a time)
var rebindAliases map[string]string

func rebind(w *World, specs *Specs, tt *TypeTable, fn *ssa.Function, c *Contract, missing string) *funcResult {
	cands := map[string]bool{}
	var walk func(f *ssa.Function)
	walk = func(f *ssa.Function) {
		for _, b := range f.Blocks {
			for _, ins := range b.Instrs {
				switch x := ins.(type) {
				case *ssa.DebugRef:
					if obj := x.Object(); obj != nil {
						if _, ok := obj.(*types.Var); ok {
							cands[obj.Name()] = true
						}
					}
				case *ssa.Alloc:
					if x.Comment != "" {
						cands[x.Comment] = true
					}
				}
			}
		}
	}
	walk(fn)
	var good []*funcResult
	var names []string
	for _, cand := range sortedKeys(cands) {
		if cand == missing || cand == "_" {
			continue
		}
		rebindAliases = map[string]string{missing: cand}
		r := verifyFunction(w, specs, tt, fn, c)
		rebindAliases = nil
		if r.Err == "" {
			good = append(good, r)
			names = append(names, cand)
		}
	}
	if len(good) > 1 {
		// several locals fit by type: the renamed one is the one the contract does not already mention
		text := contractText(c)
		var g2 []*funcResult
		var n2 []string
		for i, nm := range names {
			if !regexp.MustCompile(`\b` + regexp.QuoteMeta(nm) + `\b`).MatchString(text) {
				g2 = append(g2, good[i])
				n2 = append(n2, nm)
			}
		}
		good, names = g2, n2
	}
	if len(good) > 1 {
		// still several: a rename usually keeps part of the name - take the unique candidate with the longest common prefix
		best, bestLen, tie := -1, 2, false
		for i, nm := range names {
			l := 0
			for l < len(nm) && l < len(missing) && nm[l] == missing[l] {
				l++
			}
			if l > bestLen {
				best, bestLen, tie = i, l, false
			} else if l == bestLen && best >= 0 {
				tie = true
			}
		}
		if best >= 0 && !tie {
			good, names = []*funcResult{good[best]}, []string{names[best]}
		}
	}
	if len(good) != 1 {
		return nil
	}
	good[0].Trust = append(good[0].Trust, fmt.Sprintf("REBOUND: the contract of %s names the local variable %s, which no longer exists; %s is the only local that makes the contract well-formed and was used instead", shortFuncKey(c.Key), missing, names[0]))
	return good[0]
}

// contractText: the source lines of one contract (from its header to the next header) in its contract file.
func contractText(c *Contract) string {
	b, err := os.ReadFile(c.File)
	if err != nil {
		return ""
	}
	lines := strings.Split(string(b), "\n")
	var out []string
	for i := c.Line - 1; i >= 0 && i < len(lines); i++ {
		if i > c.Line-1 && (strings.HasPrefix(lines[i], "//@ func ") || strings.HasPrefix(lines[i], "//@ method ") || strings.HasPrefix(lines[i], "//@ functype ")) {
			break
		}
		out = append(out, lines[i])
	}
	return strings.Join(out, "\n")
}

// pathCoversOn: set by the thorough tier (and by GOVC_PATHCOVER=1)
var pathCoversOn bool

func verifyFunction(w *World, specs *Specs, tt *TypeTable, fn *ssa.Function, c *Contract) (res *funcResult) {
	vc := newVC(w, specs, tt)
	vc.fn = fn
	vc.key = c.Key
	vc.contract = c
	vc.effective = c
	res = &funcResult{Key: c.Key}
	defer func() {
		if r := recover(); r != nil {
			switch e := r.(type) {
			case outOfSubset:
				res.Err = e.msg
			case specError:
				res.Err = e.msg
			default:
				panic(r)
			}
		}
		if res.Err == "" {
			// a hook or site assertion that matched no call site on any path is a contract that no longer binds (the call
			// was removed or renamed, an ordinal is off, a pattern is misspelt): reported like any other unbound contract
			var dead []string
			for _, g := range c.Ghosts {
				if g.Callee != "@return" && !vc.hookFired["g:"+g.Src] {
					dead = append(dead, "ghost "+g.Src)
				}
			}
			for _, a := range c.Asserts {
				if a.Clause != nil && !vc.hookFired["a:"+a.Callee+"#"+fmt.Sprint(a.Ordinal)+":"+a.Clause.Label] {
					dead = append(dead, "assert/assume at call "+a.Callee+" ["+a.Clause.Label+"]")
				}
			}
			if len(dead) > 0 && vc.paths > 0 {
				sort.Strings(dead)
				res.Err = "UNBOUND: call-site hook never fires: " + strings.Join(dead, "; ")
			}
		}
		res.Obls = vc.obls
		res.Paths = vc.paths
		for k := range vc.usedTrusted {
			res.Trust = append(res.Trust, k)
		}
		sort.Strings(res.Trust)
	}()
	if c.Implement != "" {
		ikey := "(" + qualifyTypeName(c.Implement, c.Pkg, w) + ")." + fn.Name()
		ic := specs.Contracts[ikey]
		if ic == nil {
			panic(specError{fmt.Sprintf("%s: implements %s but no contract %s", c.Key, c.Implement, ikey)})
		}
		vc.effective = mergeContracts(c, ic, "")
		for _, r := range c.Requires {
			vc.usedTrusted[fmt.Sprintf("A-WIRING: own precondition [%s] of %s is assumed where the method is reached through %s (established by the wiring phases, not checked at the dispatch site)", r.Label, shortFuncKey(c.Key), c.Implement)] = true
		}
	}
	vc.pathCovers = pathCoversOn
	vc.aliases = rebindAliases
	vc.tparamsEnv = typeParamsOf(fn)
	vc.findLoops()
	vc.addAxioms()
	st := &State{vals: map[ssa.Value]Val{}, heap: newHeap(), callCount: map[string]int{}, iters: map[ssa.Value]*iterInfo{}, wgAdded: map[string]Term{}, loopHeap: map[*ssa.BasicBlock]*Heap{}}
	st.assume = append(st.assume, app(">=", vc.top(st), "0"))
	for _, p := range fn.Params {
		s := sortOf(p.Type())
		t := vc.d.declConst("p_"+sanitize(p.Name()), s)
		st.vals[p] = Val{T: t, Typ: p.Type()}
		vc.assumeAllocated(st, t, p.Type())
		if mt, ok := types.Unalias(p.Type()).Underlying().(*types.Map); ok {
			// heap well-formedness: whatever a map holds on entry refers to allocated objects
			ks, vs := sortOf(mt.Key()), sortOf(mt.Elem())
			mv := app("select", app("select", vc.hget(st.heap, mapValArr(ks, vs), mapValSort(ks, vs)), t), "mk")
			var fact Term
			switch vs {
			case "Slice":
				fact = and(app("<=", app("sid", mv), vc.top(st)), app(">=", app("sid", mv), "0"), app(">=", app("slen", mv), "0"), app(">=", app("soff", mv), "0"))
			case "Int":
				if isRefLike(mt.Elem()) {
					fact = and(app("<=", mv, vc.top(st)), app(">=", mv, "0"))
				}
			}
			if fact != "" {
				vc.d.declSort(ks)
				st.assume = append(st.assume, fmt.Sprintf("(forall ((mk %s)) (! %s :pattern (%s)))", ks, fact, mv))
			}
		}
	}
	for _, fv := range fn.FreeVars {
		t := vc.d.declConst("fv_"+sanitize(fv.Name()), "Int")
		st.vals[fv] = Val{T: t, Typ: fv.Type()}
		st.assume = append(st.assume, app(">", t, "0"), app("<=", t, vc.top(st)))
	}
	// distinct captured variables are distinct cells
	for i, a := range fn.FreeVars {
		for _, b := range fn.FreeVars[i+1:] {
			if types.Identical(a.Type(), b.Type()) || sortOf(a.Type()) == sortOf(b.Type()) {
				st.assume = append(st.assume, not(eq(st.vals[a].T, st.vals[b].T)))
			}
		}
	}
	if recv := fn.Signature.Recv(); recv != nil && isPointerRecv(recv.Type()) && len(fn.Params) > 0 {
		st.assume = append(st.assume, not(eq(st.vals[fn.Params[0]].T, "0")))
	}
	vc.curState = st
	for _, gl := range vc.effective.GhostLocals {
		ge := &Env{vc: vc, pkg: gl.Pkg, vars: map[string]TV{}, heap: st.heap, old: st.heap}
		gt := ge.resolveType(gl.Type)
		if st.glocals == nil {
			st.glocals = map[string]TV{}
		}
		st.glocals[gl.Name] = TV{T: vc.zeroSpec(gt.Sort), S: gt}
	}
	// global invariant of the engine-maintained thread counters
	st.assume = append(st.assume, app("<=", vc.hget(st.heap, "GV_Joined", "Int"), vc.hget(st.heap, "GV_Forks", "Int")))
	if vc.effective.Thread {
		// a thread knows its own identity through the ghost variable CurTid
		st.assume = append(st.assume, eq(vc.hget(st.heap, "GV_CurTid", "Int"), vc.d.declConst("tid_self", "Int")))
	}
	env := vc.fnEnv(st, newHeap())
	vc.bindSelf(env)
	vc.bindLetsOld(env, vc.effective)
	for _, gt := range vc.effective.GhostTags {
		if tv, ok := env.vars[gt]; ok && tv.S.Sort == "Slice" {
			vc.retag(st, tv.T)
		}
	}
	for _, r := range vc.effective.Requires {
		st.assume = append(st.assume, vc.trClause(env, r))
	}
	for _, inv := range vc.effective.ObjInvs {
		st.assume = append(st.assume, vc.trClause(env, inv))
		vc.usedTrusted[fmt.Sprintf("object invariant [%s] of %s: assumed at method entry (established by the constructor, re-proved at every return of every method that carries it; the representation is private to the package)", inv.Label, shortFuncKey(c.Key))] = true
	}
	vc.entryMeasure = nil
	for _, d := range vc.effective.Decreases {
		vc.entryMeasure = append(vc.entryMeasure, vc.trMeasure(env, d))
	}
	vc.initGuards(st, env)
	vc.buildProbes(st, env)
	vc.cover(st, "requires-satisfiable", posString(w, fn.Pos()), vc.effective.Props)
	vc.execFrom(st, fn.Blocks[0], nil)
	return res
}

// addAxioms includes the trusted axioms (//@ axiom) of the spec files; they speak about opaque spec functions only.
func (vc *VC) addAxioms() {
	// spec-file axioms and lemmas are translated lazily (flushAxioms): only once the vocabulary they talk about is in
	// use in this verification unit. Translating them eagerly would drag their spec functions, type ids and
	// definitional axioms into every query.
	for _, ax := range vc.specs.Axioms {
		if ax.Lemma && vc.provingLemma == ax {
			continue // a lemma is not available to its own proof
		}
		vc.pendingAxioms = append(vc.pendingAxioms, ax)
	}
}

// axiomVocabulary: the opaque / defined spec functions an axiom mentions (macros expand in place and do not count).
func (vc *VC) axiomVocabulary(ax *Axiom) []string {
	var out []string
	ast.Inspect(ax.Expr, func(n ast.Node) bool {
		if call, ok := n.(*ast.CallExpr); ok {
			if id, ok := call.Fun.(*ast.Ident); ok {
				if sf, ok := vc.specs.SpecFuncs[id.Name]; ok && (sf.Opaque || sf.Defined) {
					out = append(out, "sf_"+id.Name)
				}
			}
			if sel, ok := call.Fun.(*ast.SelectorExpr); ok && len(call.Args) == 0 {
				// a pure method x.M(): relevant once some pure-method symbol ...__M is in use
				out = append(out, "method:"+sel.Sel.Name)
			}
		}
		return true
	})
	return out
}

// vocabularyInUse: has the symbol been declared in this verification unit?
func (vc *VC) vocabularyInUse(sym string) bool {
	if strings.HasPrefix(sym, "method:") {
		suffix := "__" + strings.TrimPrefix(sym, "method:")
		for k := range vc.d.seen {
			if strings.HasPrefix(k, "decl_pm_") && strings.HasSuffix(k, suffix) {
				return true
			}
		}
		return false
	}
	return vc.d.seen[sym]
}

func (vc *VC) flushAxioms() {
	if len(vc.pendingAxioms) == 0 {
		return
	}
	var rest []*Axiom
	for _, ax := range vc.pendingAxioms {
		ready := true
		voc := vc.axiomVocabulary(ax)
		for _, sym := range voc {
			if !vc.vocabularyInUse(sym) {
				ready = false
				break
			}
		}
		if !ready && len(voc) > 0 {
			rest = append(rest, ax)
			continue
		}
		e := &Env{vc: vc, pkg: ax.Pkg, vars: map[string]TV{}, heap: newHeap(), old: newHeap()}
		vc.d.specAxiom(e.trBool(ax.Expr))
		if ax.Lemma {
			vc.usedTrusted["lemma "+ax.Label+" (proved as its own obligation)"] = true
		} else {
			vc.usedTrusted["axiom "+ax.Label] = true
		}
	}
	vc.pendingAxioms = rest
}

// buildProbes evaluates the probe expressions of the contract (and one automatic probe per scalar parameter) in the
// entry state.
func (vc *VC) buildProbes(st *State, env *Env) {
	for _, p := range vc.fn.Params {
		v := st.vals[p]
		switch sortOf(p.Type()) {
		case "Int", "Bool", "Str":
			vc.probes = append(vc.probes, Probe{Name: "param_" + p.Name(), Term: v.T})
		case "Slice":
			vc.probes = append(vc.probes, Probe{Name: "len_" + p.Name(), Term: app("slen", v.T)})
		case "Iface":
			vc.probes = append(vc.probes, Probe{Name: "isnil_" + p.Name(), Term: eq(v.T, "iface_nil")})
		}
	}
	for _, pd := range vc.effective.Probes {
		if pd.IndexVar == "" {
			vc.probes = append(vc.probes, Probe{Name: pd.Name, Term: env.tr(pd.Expr).T})
			continue
		}
		for k := 0; k < pd.N; k++ {
			ce := env.child()
			ce.vars[pd.IndexVar] = TV{T: intLit(int64(k)), S: stInt}
			vc.probes = append(vc.probes, Probe{Name: fmt.Sprintf("%s_%d", pd.Name, k), Term: ce.tr(pd.Expr).T})
		}
	}
}

func proveLemma(w *World, specs *Specs, tt *TypeTable, ax *Axiom) (res *funcResult) {
	vc := newVC(w, specs, tt)
	vc.key = "lemma:" + ax.Label
	vc.provingLemma = ax
	res = &funcResult{Key: vc.key}
	defer func() {
		if r := recover(); r != nil {
			switch e := r.(type) {
			case outOfSubset:
				res.Err = e.msg
			case specError:
				res.Err = e.msg
			default:
				panic(r)
			}
		}
		res.Obls = vc.obls
	}()
	vc.addAxioms()
	st := &State{vals: map[ssa.Value]Val{}, heap: newHeap(), callCount: map[string]int{}, iters: map[ssa.Value]*iterInfo{}, wgAdded: map[string]Term{}, loopHeap: map[*ssa.BasicBlock]*Heap{}}
	e := &Env{vc: vc, pkg: ax.Pkg, vars: map[string]TV{}, heap: st.heap, old: st.heap}
	g := e.trBool(ax.Expr)
	vc.oblige(st, g, ax.Label, "lemma", fmt.Sprintf("%s:%d", ax.File, ax.Line), ax.Props, ax.Src, "")
	return res
}

// typeParamsOf maps the type parameter names of a generic function (or of its receiver) to themselves.
func typeParamsOf(fn *ssa.Function) map[string]types.Type {
	m := map[string]types.Type{}
	add := func(l *types.TypeParamList) {
		for i := 0; l != nil && i < l.Len(); i++ {
			m[l.At(i).Obj().Name()] = l.At(i)
		}
	}
	for f := fn; f != nil; f = f.Parent() {
		add(f.Signature.TypeParams())
		add(f.Signature.RecvTypeParams())
	}
	return m
}


func main() {
	if len(os.Args) < 2 {
		fmt.Fprintln(os.Stderr, "usage: govc check|funcs|dump ...")
		os.Exit(2)
	}
	switch os.Args[1] {
	case "check":
		os.Exit(cmdCheck(os.Args[2:]))
	case "dump":
		os.Exit(cmdDump(os.Args[2:]))
	case "scc":
		// govc scc [-repo dir] -func substr: the recursive group (strongly connected component of the call graph used
		// by the termination rule) of every function whose key contains substr
		o := parseOpts(os.Args[2:])
		w, err := loadWorld(o.repo, []string{"./..."})
		if err != nil {
			fmt.Fprintln(os.Stderr, err)
			os.Exit(2)
		}
		g := buildTermGraph(w)
		for _, k := range sortedKeys(g.edges) {
			if o.fn != "" && strings.Contains(k, o.fn) {
				grp := g.group(k)
				if len(grp) > 1 || g.self[k] {
					fmt.Printf("%s: recursive group of %d\n", k, len(grp))
					for _, m := range grp {
						fmt.Println("   ", m)
					}
				} else {
					fmt.Printf("%s: not recursive\n", k)
				}
			}
		}
	default:
		fmt.Fprintln(os.Stderr, "unknown command", os.Args[1])
		os.Exit(2)
	}
}

type options struct {
	repo, verif, prop, tier, fn string
	timeout                    int
	workers                    int
	keep                       bool
	all                        bool
	scratch bool
	nocone  bool
}

func parseOpts(args []string) *options {
	fs := flag.NewFlagSet("govc", flag.ExitOnError)
	o := &options{}
	fs.StringVar(&o.repo, "repo", "/repo", "repository root")
	fs.StringVar(&o.verif, "verif", "/verif", "verification root")
	fs.StringVar(&o.prop, "property", "", "property id")
	fs.StringVar(&o.tier, "tier", "quick", "quick|thorough")
	fs.StringVar(&o.fn, "func", "", "restrict to functions whose key contains this")
	fs.IntVar(&o.timeout, "timeout", 0, "solver timeout per obligation (s)")
	fs.IntVar(&o.workers, "workers", runtime.NumCPU(), "parallel solver processes")
	fs.BoolVar(&o.keep, "keep", false, "keep scripts of failed obligations under verif/out")
	fs.BoolVar(&o.all, "all", false, "all properties")
	fs.BoolVar(&o.nocone, "nocone", false, "verify only the functions claimed for the property, not their callee cone")
	fs.BoolVar(&o.scratch, "scratch", false, "corpus run on a scratch copy: write neither evidence nor replay files under verif")
	fs.Parse(args)
	if t := os.Getenv("VERIF_TIER"); t != "" && o.tier == "" {
		o.tier = t
	}
	if o.timeout == 0 {
		o.timeout = 20
		if o.tier == "thorough" {
			o.timeout = 60
		}
	}
	return o
}

func hasProp(props []string, p string) bool {
	for _, x := range props {
		if x == p {
			return true
		}
	}
	return false
}

// contractMentions reports whether any clause of the contract is claimed for property p.
func contractMentions(c *Contract, p string) bool {
	if p == "" || hasProp(c.Props, p) {
		return true
	}
	for _, cl := range c.Requires {
		if hasProp(cl.Props, p) {
			return true
		}
	}
	for _, cl := range c.Ensures {
		if hasProp(cl.Props, p) {
			return true
		}
	}
	for _, l := range c.Loops {
		for _, cl := range l.Invariants {
			if hasProp(cl.Props, p) {
				return true
			}
		}
	}
	return false
}

type runOutput struct {
	results []*funcResult
	world   *World
	specs   *Specs
	loadS   float64
	genS    float64
	solveS  float64
}

func generate(o *options) (*runOutput, error) {
	t0 := time.Now()
	pathCoversOn = (o.tier == "thorough" && !o.scratch) || os.Getenv("GOVC_PATHCOVER") == "1"
	w, err := loadWorld(o.repo, []string{"./..."})
	if err != nil {
		return nil, err
	}
	specs, err := loadAllSpecs(w, filepath.Join(o.verif, "contracts", "trusted"))
	if err != nil {
		return nil, err
	}
	out := &runOutput{world: w, specs: specs, loadS: time.Since(t0).Seconds()}
	t1 := time.Now()
	fns := w.repoFunctions()
	tt := newTypeTable()
	effOf := func(key string, c *Contract) *Contract {
		if c.Implement != "" {
			if i := strings.LastIndex(key, "."); i >= 0 {
				if ic := specs.Contracts["("+qualifyTypeName(c.Implement, c.Pkg, w)+")"+key[i:]]; ic != nil {
					return mergeContracts(c, ic, "")
				}
			}
		}
		return c
	}
	verifiable := func(key string, c *Contract) bool {
		if c.Trusted || c.IsMethod || strings.Contains(key, "#") || strings.HasPrefix(key, "functype ") || strings.HasPrefix(key, "fieldfunc ") {
			return false
		}
		return isRepoPkg(c.Pkg.PkgPath)
	}
	// Callee cone: a property's check also verifies every function under contract that the functions claimed for the
	// property can reach (static calls, interface dispatch to repository implementations, closures). A change inside a
	// callee is only noticed through the callee's own obligations, so they belong to every property that rests on them.
	cone := map[string]bool{}
	if !o.nocone && o.prop != "ANY" && o.prop != "" {
		g := buildTermGraph(w)
		var work []string
		for _, key := range sortedKeys(specs.Contracts) {
			c := specs.Contracts[key]
			if verifiable(key, c) && contractMentions(effOf(key, c), o.prop) {
				work = append(work, key)
			}
		}
		seen := map[string]bool{}
		for len(work) > 0 {
			k := work[len(work)-1]
			work = work[:len(work)-1]
			if seen[k] {
				continue
			}
			seen[k] = true
			cone[k] = true
			for n := range g.edges[k] {
				if !strings.HasPrefix(n, "dyn:") && !seen[n] {
					work = append(work, n)
				}
			}
		}
	}
	for _, key := range sortedKeys(specs.Contracts) {
		c := specs.Contracts[key]
		if !verifiable(key, c) {
			continue
		}
		eff := effOf(key, c)
		terminationCone := hasProp(specs.TerminationProps, o.prop) && (eff.Terminates || len(eff.Decreases) > 0)
		inCone := cone[key] && !contractMentions(eff, o.prop)
		if o.prop != "ANY" && !contractMentions(eff, o.prop) && !terminationCone && !inCone {
			continue
		}
		if o.fn != "" && !strings.Contains(key, o.fn) {
			continue
		}
		fn := fns[key]
		if fn == nil {
			out.results = append(out.results, &funcResult{Key: key, Err: "UNBOUND: no function " + key + " in the current source"})
			continue
		}
		res := verifyFunction(w, specs, tt, fn, c)
		if m := unknownIdentRe.FindStringSubmatch(res.Err); m != nil {
			// a contract names a local variable that no longer exists (renamed in the source): if exactly one other
			// local of the function makes the whole contract well-formed again, verify against that binding and say so
			if alt := rebind(w, specs, tt, fn, c, m[1]); alt != nil {
				res = alt
			}
		}
		if inCone {
			// obligations attributed by the function's own property list (not by a per-clause list) also count for
			// the property whose cone the function is in
			res.Cone = true
			for _, ob := range res.Obls {
				if sameProps(ob.Props, eff.Props) || len(ob.Props) == 0 {
					ob.Props = unionProps(ob.Props, []string{o.prop})
				}
			}
		}
		out.results = append(out.results, res)
	}
	if cr, err := runCensus(o, w, specs); err != nil {
		return nil, err
	} else if cr != nil {
		out.results = append(out.results, cr)
	}
	// lemmas: pure logical facts over spec functions, proved once and then available everywhere
	for _, ax := range specs.Axioms {
		if !ax.Lemma {
			continue
		}
		if o.prop != "" && o.prop != "ANY" && !hasProp(ax.Props, o.prop) {
			continue
		}
		if o.fn != "" && !strings.Contains("lemma:"+ax.Label, o.fn) {
			continue
		}
		out.results = append(out.results, proveLemma(w, specs, tt, ax))
	}
	out.genS = time.Since(t1).Seconds()
	return out, nil
}

func cmdDump(args []string) int {
	o := parseOpts(args)
	out, err := generate(o)
	if err != nil {
		fmt.Fprintln(os.Stderr, "govc:", err)
		return 2
	}
	var all []*Obligation
	for _, r := range out.results {
		if r.Err != "" {
			fmt.Printf("ERROR %s: %s\n", shortFuncKey(r.Key), r.Err)
		}
		all = append(all, r.Obls...)
	}
	dischargeAll(all, o.tier, o.timeout, o.workers)
	dir := filepath.Join(o.verif, "out", "dump")
	os.MkdirAll(dir, 0o755)
	for i, ob := range all {
		bad := (ob.Expect == "" && ob.Status != "unsat") || (ob.Expect == "cover" && ob.Status == "unsat")
		mark := "ok  "
		if bad {
			mark = "FAIL"
		}
		fmt.Printf("%s %-8s %-7s %5dms %s  (%s %s path %s)\n", mark, ob.Status, ob.Solver, ob.Ms, ob.Name(), ob.Kind, ob.Site, ob.Path)
		if bad || o.keep {
			f := filepath.Join(dir, fmt.Sprintf("%03d_%s.smt2", i, sanitize(ob.Name())))
			os.WriteFile(f, []byte(ob.Script), 0o644)
			if bad {
				fmt.Printf("     script: %s\n     %s\n", f, strings.ReplaceAll(ob.Output, "\n", "\n     "))
			}
		}
	}
	fmt.Printf("load %.1fs gen %.1fs; %d obligations\n", out.loadS, out.genS, len(all))
	return 0
}

func writeJSON(path string, v any) error {
	b, err := json.MarshalIndent(v, "", " ")
	if err != nil {
		return err
	}
	os.MkdirAll(filepath.Dir(path), 0o755)
	return os.WriteFile(path, append(b, '\n'), 0o644)
}


func sameProps(a, b []string) bool {
	ma, mb := map[string]bool{}, map[string]bool{}
	for _, x := range a {
		ma[x] = true
	}
	for _, x := range b {
		mb[x] = true
	}
	if len(ma) != len(mb) {
		return false
	}
	for x := range ma {
		if !mb[x] {
			return false
		}
	}
	return true
}
