package processors

import (
	"testing"
	"time"

	"github.com/go-kid/ioc/util/el"
)

// Demonstration of F-C16: a configured value that refers to itself makes placeholder resolution spin forever.
func TestFindingC16SelfReferenceTerminates(t *testing.T) {
	done := make(chan struct{})
	var out string
	var err error
	go func() {
		defer close(done)
		cfg := map[string]string{"a": "${a}"}
		out, err = el.NewQuote().ReplaceAllContent("${a}", func(key string) (string, error) { return cfg[key], nil })
	}()
	select {
	case <-done:
		if err == nil && out != "" {
			t.Fatalf("circular reference resolved to %q without an error", out)
		}
	case <-time.After(3 * time.Second):
		t.Fatalf("ReplaceAllContent did not return within 3s for a: \"${a}\" (resolution does not terminate)")
	}
}
