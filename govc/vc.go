package main

import (
	"fmt"
	"go/ast"
	"go/token"
	"go/types"
	"sort"
	"strings"

	"golang.org/x/tools/go/ssa"
)

// Obligation is one proof goal with everything needed to discharge it.
type Obligation struct {
	Func    string   // function key (short)
	Label   string   // clause label
	Kind    string   // ensures | requires | invariant-init | invariant-step | safety | frame | lemma | subtype | thread
	Site    string   // file:line of the program point (or contract line)
	Props   []string // properties it is claimed for
	Path    string   // block path
	Script  string
	Clause  string // source text of the clause
	Callee  string
	Status  string // unsat | sat | unknown | timeout | error
	Solver  string
	Ms      int64
	Output  string
	Expect  string // "" or "cover" (expect sat/unknown: vacuity check)
	Trusted []string
	Probes  []Probe
	Replay  string
	ExpectedToFail bool
}

func (o *Obligation) Name() string {
	n := shortFuncKey(o.Func) + "/[" + o.Label + "]"
	if o.Callee != "" {
		n += "@" + shortFuncKey(o.Callee)
	}
	return n
}

func shortFuncKey(k string) string {
	return strings.ReplaceAll(k, repoModule+"/", "")
}

// Probe is a named term whose value in a counter-model describes the failing input.
type Probe struct {
	Name string
	Term Term
}

// VC is the verification context of one function (or lemma).
type VC struct {
	w        *World
	specs    *Specs
	tt       *TypeTable
	d        *Decls
	fn       *ssa.Function
	key      string
	contract *Contract
	effective *Contract // contract merged with the inherited interface-level contract
	aliases    map[string]string // contract name -> current name of a renamed local variable (REBOUND)
	pathCovers bool // thorough tier: one reachability query per finished path
	provisionalLoads map[string]bool // field arrays whose entry value stands in for an in-loop re-read (loopModifies)
	curLoop          *loopInfo
	loopGhostLocals  map[string]bool // ghost locals assigned by hooks inside the loop being entered
	hookFired      map[string]bool // call-site hooks / site assertions that matched at least one call on some path
	entryMeasure   []Term // the function's recursion measure in its entry state (term.go)
	recursiveCalls int    // call sites found to be recursive (same strongly connected component)
	callSeq, curCallSeq int // numbering of contract applications (names of per-call unknowns)
	pendingAxioms []*Axiom // spec axioms / lemmas not yet translated (their vocabulary is not in use yet)
	guards    []guardLV // guarded targets of the thread under verification (lockset discipline)
	arrays   map[string]Sort
	obls     []*Obligation
	concTypes map[int]types.Type
	ifaceTypes map[int]*types.Interface
	funcIDs  map[string]int
	usedTrusted map[string]bool
	errs     []string
	loops    map[*ssa.BasicBlock]*loopInfo
	paths    int
	maxPaths int
	closureOrd map[*ssa.Function]int
	pureAxiomsDone map[string]bool
	tparamsEnv map[string]types.Type
	callOrd map[ssa.Instruction]int
	epochs  int
	refArrays map[string]bool // heap arrays whose Int values are references
	provingLemma *Axiom
	cbCount int
	curInstr ssa.Instruction
	probes  []Probe
	curState *State // state receiving heap well-formedness facts discovered while translating clauses
}

func newVC(w *World, specs *Specs, tt *TypeTable) *VC {
	return &VC{w: w, specs: specs, tt: tt, d: newDecls(), arrays: map[string]Sort{}, concTypes: map[int]types.Type{}, ifaceTypes: map[int]*types.Interface{},
		funcIDs: map[string]int{}, refArrays: map[string]bool{}, usedTrusted: map[string]bool{}, maxPaths: 400, pureAxiomsDone: map[string]bool{}, hookFired: map[string]bool{}}
}

func (vc *VC) typeID(t types.Type) int {
	t = types.Unalias(t)
	id := vc.tt.id(t)
	if it, ok := t.Underlying().(*types.Interface); ok {
		if _, isTP := t.(*types.TypeParam); !isTP {
			vc.ifaceTypes[id] = it
		}
	} else {
		vc.concTypes[id] = t
	}
	return id
}

func (vc *VC) funcConst(name string) Term {
	id, ok := vc.funcIDs[name]
	if !ok {
		id = 1000000 + len(vc.funcIDs)
		vc.funcIDs[name] = id
	}
	return intLit(int64(-id)) // negative: never collides with allocated refs (> 0)
}

// typeFacts renders implements() ground facts for the types seen so far.
func (vc *VC) typeFacts() []Term {
	var out []Term
	var cids, iids []int
	for id := range vc.concTypes {
		cids = append(cids, id)
	}
	for id := range vc.ifaceTypes {
		iids = append(iids, id)
	}
	sort.Ints(cids)
	sort.Ints(iids)
	for _, c := range cids {
		ct := vc.concTypes[c]
		if _, isTP := ct.(*types.TypeParam); isTP {
			continue
		}
		for _, i := range iids {
			if types.Implements(ct, vc.ifaceTypes[i]) {
				out = append(out, app("implements", intLit(int64(c)), intLit(int64(i))))
			} else {
				out = append(out, not(app("implements", intLit(int64(c)), intLit(int64(i)))))
			}
		}
	}
	for _, i := range iids {
		for _, j := range iids {
			if i == j {
				continue
			}
			// every type implementing i implements j when i's method set includes j's
			if types.Implements(vc.tt.types[i-1], vc.ifaceTypes[j]) {
				out = append(out, fmt.Sprintf("(forall ((t Int)) (! (=> (implements t %d) (implements t %d)) :pattern ((implements t %d))))", i, j, i))
			}
		}
	}
	return out
}

func (vc *VC) hget(h *Heap, name string, s Sort) Term {
	if old, ok := vc.arrays[name]; ok && old != s {
		panic(specError{fmt.Sprintf("heap array %s used at sorts %s and %s", name, old, s)})
	}
	vc.arrays[name] = s
	if t, ok := h.cur[name]; ok {
		return t
	}
	if h.epoch != "" {
		sym := name + "@" + h.epoch
		fresh := !vc.d.seen[sym]
		t := vc.d.declConst(sym, s)
		h.cur[name] = t
		if fresh && name != "top" {
			if ax := vc.wfFact(name, t, s, vc.hget(h, "top", "Int")); ax != "" {
				vc.d.axiom(ax)
			}
		}
		return t
	}
	fresh := !vc.d.seen[name]
	t := vc.d.declConst(name, s)
	if fresh && name != "top" {
		if ax := vc.wfFact(name, t, s, vc.d.declConst("top", "Int")); ax != "" {
			vc.d.axiom(ax)
		}
	}
	return t
}

// wfFact: heap well-formedness of one version of a heap array - every reference stored in it denotes an object that is
// allocated in that heap (needed under quantifiers, where facts about individual reads cannot be hoisted).
func (vc *VC) wfFact(name string, arr Term, s Sort, top Term) Term {
	if strings.HasPrefix(name, "GV_") || name == "Tags" || strings.HasPrefix(name, "IterVisited_") {
		return ""
	}
	parts := arraySorts(s)
	if parts == nil {
		return ""
	}
	valFact := func(v Term, vs Sort) Term {
		switch vs {
		case "Slice":
			return and(app("<=", app("sid", v), top), app(">=", app("sid", v), "0"), app(">=", app("slen", v), "0"), app(">=", app("soff", v), "0"), implies(eq(app("sid", v), "0"), eq(app("slen", v), "0")))
		case "Iface":
			return implies(not(eq(v, "iface_nil")), app("<=", app("pl", v), top))
		case "Int":
			if vc.refArrays[name] {
				return and(app("<=", v, top), app(">=", v, "0"))
			}
		}
		return ""
	}
	// only objects that exist in this heap: the slot of an object allocated later (e.g. by a callee whose result is
	// fresh) is read through the same array, and nothing is known about it yet
	guard := func(f Term) Term {
		if parts[0] == "Int" {
			return implies(app("<=", "wx", top), f)
		}
		return f
	}
	if inner := arraySorts(parts[1]); inner != nil {
		v := app("select", app("select", arr, "wx"), "wy")
		if f := valFact(v, inner[1]); f != "" {
			vc.d.declSort(inner[0])
			return fmt.Sprintf("(forall ((wx %s) (wy %s)) (! %s :pattern (%s)))", parts[0], inner[0], guard(f), v)
		}
		return ""
	}
	v := app("select", arr, "wx")
	if f := valFact(v, parts[1]); f != "" {
		return fmt.Sprintf("(forall ((wx %s)) (! %s :pattern (%s)))", parts[0], guard(f), v)
	}
	return ""
}

// toAny models the conversion of a value of static type t to an interface value.
func (vc *VC) toAny(x Term, t types.Type) Term {
	if t == nil {
		return x
	}
	t = types.Unalias(t)
	if _, ok := t.(*types.TypeParam); ok {
		s := sortOf(t)
		fn := "toany_" + sortID(s)
		vc.d.declFun(fn, []Sort{s}, "Iface")
		vc.d.declFun("fromany_"+sortID(s), []Sort{"Iface"}, s)
		vc.d.declFun("isdyn_"+sortID(s), []Sort{"Iface"}, "Bool")
		vc.d.axiom(fmt.Sprintf("(forall ((x %s)) (! (and (= (fromany_%s (toany_%s x)) x) (isdyn_%s (toany_%s x))) :pattern ((toany_%s x))))", s, sortID(s), sortID(s), sortID(s), sortID(s), sortID(s)))
		return app(fn, x)
	}
	if _, ok := t.Underlying().(*types.Interface); ok {
		return x
	}
	s := sortOf(t)
	return app("mk_iface", intLit(int64(vc.typeID(t))), vc.d.box(s, x))
}

// applyFun names the uninterpreted application function for pure function values of a signature.
func (vc *VC) applyFun(sig *types.Signature, tp map[string]types.Type) string {
	var sorts []Sort
	sorts = append(sorts, "Int")
	name := "apply"
	for i := 0; i < sig.Params().Len(); i++ {
		s := sortOf(sig.Params().At(i).Type())
		sorts = append(sorts, s)
		name += "_" + sortID(s)
	}
	res := sortOf(sig.Results().At(0).Type())
	name += "__" + sortID(res)
	vc.d.declFun(name, sorts, res)
	return name
}

// seesRepresentation: bindings of model fields are visible only while verifying code of the package that declares them.
func (vc *VC) seesRepresentation(b *Binding) bool {
	if vc.contract == nil || vc.contract.Pkg == nil || b.Pkg == nil {
		return true
	}
	return vc.contract.Pkg.PkgPath == b.Pkg.PkgPath
}

// applyPreFun names the precondition predicate of function values of a signature.
func (vc *VC) applyPreFun(sig *types.Signature) string {
	sorts := []Sort{"Int"}
	name := "applypre"
	for i := 0; i < sig.Params().Len(); i++ {
		s := sortOf(sig.Params().At(i).Type())
		sorts = append(sorts, s)
		name += "_" + sortID(s)
	}
	vc.d.declFun(name, sorts, "Bool")
	return name
}

// refKeyed reports whether a heap variable is an array indexed by object references (subject to allocation framing).
func (vc *VC) refKeyed(name string) bool {
	if strings.HasPrefix(name, "Glob_") {
		return false
	}
	if strings.HasPrefix(name, "GV_") {
		gv := vc.specs.GhostVars[strings.TrimPrefix(name, "GV_")]
		if gv == nil {
			return false
		}
		if mt, ok := gv.Type.(*ast.MapType); ok {
			if id, ok := mt.Key.(*ast.Ident); ok && id.Name == "Ref" {
				return true
			}
		}
		return false
	}
	return strings.HasPrefix(vc.arrays[name], "(Array Int ")
}

// stepField follows one field index from cur (pointer to struct, or struct sub-object address).
func (vc *VC) stepField(h *Heap, cur TV, idx int) TV {
	t := types.Unalias(cur.S.Go)
	if p, ok := t.Underlying().(*types.Pointer); ok {
		t = types.Unalias(p.Elem())
	}
	st, ok := t.Underlying().(*types.Struct)
	if !ok {
		panic(specError{fmt.Sprintf("field step on non-struct %v", cur.S.Go)})
	}
	f := st.Field(idx)
	arr, subobj := fieldArr(t, f)
	if subobj {
		vc.d.declFun(arr, []Sort{"Int"}, "Int")
		vc.d.declFun(arr+"_inv", []Sort{"Int"}, "Int")
		vc.d.axiom(fmt.Sprintf("(forall ((x Int)) (! (= (%s_inv (%s x)) x) :pattern ((%s x))))", arr, arr, arr))
		return TV{T: app(arr, cur.T), S: goSType(f.Type())}
	}
	fs := sortOf(f.Type())
	if isRefLike(f.Type()) {
		vc.refArrays[arr] = true
	}
	return TV{T: app("select", vc.hget(h, arr, arrSort(fs)), cur.T), S: goSType(f.Type())}
}

// fieldArr names the heap array of a struct field; subobj reports by-value struct fields (address functions).
func fieldArr(structType types.Type, f *types.Var) (string, bool) {
	owner := "anon"
	if n, ok := types.Unalias(structType).(*types.Named); ok {
		owner = sanitize(n.Obj().Pkg().Name()) + "_" + n.Obj().Name()
	}
	if _, opaque := isOpaqueStruct(f.Type()); !opaque {
		if _, ok := types.Unalias(f.Type()).Underlying().(*types.Struct); ok {
			if f.Type().Underlying().(*types.Struct).NumFields() > 0 {
				return "fld_" + owner + "_" + f.Name(), true
			}
		}
	}
	return "F_" + owner + "_" + f.Name(), false
}

// ---------- lvalues of spec expressions (assigns targets) ----------

type LV struct {
	Arr   string
	Sort  Sort // sort of the whole array
	Idx   Term // "" for scalar heap variables
	Whole bool
}

func (e *Env) lvals(x ast.Expr) []LV {
	vc := e.vc
	switch x := x.(type) {
	case *ast.ParenExpr:
		return e.lvals(x.X)
	case *ast.Ident:
		if gv, ok := vc.specs.GhostVars[x.Name]; ok {
			ge := &Env{vc: vc, pkg: gv.Pkg, vars: map[string]TV{}, heap: e.heap, old: e.old}
			st := ge.resolveType(gv.Type)
			vc.hget(e.heap, "GV_"+gv.Name, st.Sort)
			return []LV{{Arr: "GV_" + gv.Name, Sort: st.Sort}}
		}
		if sf, ok := vc.specs.SpecFuncs[x.Name]; ok && len(sf.Params) == 0 && !sf.Opaque {
			se := &Env{vc: vc, pkg: sf.Pkg, vars: map[string]TV{}, heap: e.heap, old: e.old}
			return se.lvals(sf.Body)
		}
		if e.cellPtr != nil {
			if _, isVar := e.vars[x.Name]; !isVar {
				if ptr, et, ok := e.cellPtr(x.Name); ok {
					s := sortOf(et)
					vc.hget(e.heap, cellArr(s), arrSort(s))
					return []LV{{Arr: cellArr(s), Sort: arrSort(s), Idx: ptr}}
				}
			}
		}
		if o := e.lookupObj(x.Name); o != nil {
			if v, ok := o.(*types.Var); ok && v.Parent() == v.Pkg().Scope() {
				s := sortOf(v.Type())
				vc.hget(e.heap, globalArr(v), s)
				return []LV{{Arr: globalArr(v), Sort: s}}
			}
		}
	case *ast.StarExpr:
		p := e.tr(x.X)
		if pt, ok := derefType(p.S.Go); ok {
			s := sortOf(pt)
			vc.hget(e.heap, cellArr(s), arrSort(s))
			return []LV{{Arr: cellArr(s), Sort: arrSort(s), Idx: p.T}}
		}
	case *ast.IndexExpr:
		// G[k] for a ghost variable of map type: one slot
		if id, ok := x.X.(*ast.Ident); ok {
			if gv, ok := vc.specs.GhostVars[id.Name]; ok {
				ge := &Env{vc: vc, pkg: gv.Pkg, vars: map[string]TV{}, heap: e.heap, old: e.old}
				st := ge.resolveType(gv.Type)
				if st.Key != nil {
					vc.hget(e.heap, "GV_"+gv.Name, st.Sort)
					return []LV{{Arr: "GV_" + gv.Name, Sort: st.Sort, Idx: e.tr(x.Index).T}}
				}
			}
		}
	case *ast.SelectorExpr:
		base := e.tr(x.X)
		return e.fieldLV(base, x.Sel.Name, x)
	case *ast.CallExpr:
		if id, ok := x.Fun.(*ast.Ident); ok {
			switch id.Name {
			case "elems":
				v := e.tr(x.Args[0])
				u := types.Unalias(v.S.Go).Underlying().(*types.Slice)
				es := sortOf(u.Elem())
				vc.hget(e.heap, elemsArr(es), elemsSort(es))
				return []LV{{Arr: elemsArr(es), Sort: elemsSort(es), Idx: app("sid", v.T)}}
			case "anyfield":
				// anyfield(T, f): every object's field f (real or ghost), for frames of callbacks that reach arbitrary objects
				tt := e.resolveType(x.Args[0])
				nm, ok := x.Args[1].(*ast.Ident)
				if !ok || tt.Go == nil {
					e.fail(x, "anyfield(Type, field)")
				}
				pt := tt.Go
				if _, isPtr := types.Unalias(pt).Underlying().(*types.Pointer); !isPtr {
					if _, isIface := types.Unalias(pt).Underlying().(*types.Interface); !isIface {
						pt = types.NewPointer(pt)
					}
				}
				dummy := TV{T: vc.d.declConst("anyobj_"+sortID(sortOf(pt)), sortOf(pt)), S: goSType(pt)}
				lvs := e.fieldLV(dummy, nm.Name, x)
				for i := range lvs {
					lvs[i].Idx = ""
					lvs[i].Whole = true
				}
				return lvs
			case "forkargs":
				// forkargs(param): the ghost array recording that argument of every forked thread
				nm, ok := x.Args[len(x.Args)-1].(*ast.Ident)
				if !ok {
					e.fail(x, "forkargs([function,] paramName)")
				}
				root := vc.fn
				if e.fnCtx != nil {
					root = e.fnCtx
				}
				for root != nil && root.Parent() != nil {
					root = root.Parent()
				}
				if len(x.Args) == 2 {
					// forkargs(function, param): the thread closure of another function (frames of callers)
					fname, ok := x.Args[0].(*ast.Ident)
					if !ok {
						e.fail(x, "forkargs(function, paramName)")
					}
					if vc.w.fnCache == nil {
						vc.w.fnCache = vc.w.repoFunctions()
					}
					root = nil
					for _, k := range sortedKeys(vc.w.fnCache) {
						if strings.HasSuffix(k, "."+fname.Name) {
							root = vc.w.fnCache[k]
						}
					}
					if root == nil {
						e.fail(x, "forkargs: no function %s", fname.Name)
					}
				}
				for _, af := range root.AnonFuncs {
					if c := vc.lookupContract(funcKey(af)); c != nil && c.Thread {
						for _, p := range af.Params {
							if p.Name() == nm.Name {
								s := sortOf(p.Type())
								vc.hget(e.heap, forkArgArr(af, p.Name()), arrSort(s))
								return []LV{{Arr: forkArgArr(af, p.Name()), Sort: arrSort(s)}}
							}
						}
					}
				}
				e.fail(x, "forkargs: no thread closure parameter %s", nm.Name)
			case "tags":
				sv := e.tr(x.Args[0])
				vc.hget(e.heap, "Tags", tagsSort)
				return []LV{{Arr: "Tags", Sort: tagsSort, Idx: app("sid", sv.T)}}
			case "allmaps":
				// allmaps(map[K]V): the contents of every Go map of that type (frames of callbacks that reach arbitrary objects)
				mt, ok := x.Args[0].(*ast.MapType)
				if !ok {
					e.fail(x, "allmaps(map[K]V)")
				}
				ks, vs := e.resolveType(mt.Key).Sort, e.resolveType(mt.Value).Sort
				vc.hget(e.heap, mapDomArr(ks, vs), mapDomSort(ks))
				vc.hget(e.heap, mapValArr(ks, vs), mapValSort(ks, vs))
				return []LV{{Arr: mapDomArr(ks, vs), Sort: mapDomSort(ks), Whole: true}, {Arr: mapValArr(ks, vs), Sort: mapValSort(ks, vs), Whole: true}}
			case "mapcontents":
				m := e.tr(x.Args[0])
				mt := types.Unalias(m.S.Go).Underlying().(*types.Map)
				ks, vs := sortOf(mt.Key()), sortOf(mt.Elem())
				vc.hget(e.heap, mapDomArr(ks, vs), mapDomSort(ks))
				vc.hget(e.heap, mapValArr(ks, vs), mapValSort(ks, vs))
				return []LV{{Arr: mapDomArr(ks, vs), Sort: mapDomSort(ks), Idx: m.T}, {Arr: mapValArr(ks, vs), Sort: mapValSort(ks, vs), Idx: m.T}}
			}
			if fr, ok := vc.specs.Frames[id.Name]; ok {
				fe := &Env{vc: vc, pkg: fr.Pkg, vars: map[string]TV{}, heap: e.heap, old: e.old, tparams: e.tparams, facts: e.facts, qfacts: e.qfacts, fnCtx: e.fnCtx}
				for i, pn := range fr.Params {
					if i < len(x.Args) {
						fe.vars[pn] = e.tr(x.Args[i])
					}
				}
				var out []LV
				for _, t := range fr.Targets {
					for _, lv := range fe.lvals(t.Expr) {
						if t.Any {
							lv.Idx = ""
							lv.Whole = true
						}
						out = append(out, lv)
					}
				}
				return out
			}
			if sf, ok := vc.specs.SpecFuncs[id.Name]; ok && !sf.Opaque {
				se := &Env{vc: vc, pkg: sf.Pkg, vars: map[string]TV{}, heap: e.heap, old: e.old, tparams: e.tparams, facts: e.facts, qfacts: e.qfacts}
				for i, p := range sf.Params {
					se.vars[p.Name] = e.tr(x.Args[i])
				}
				return se.lvals(sf.Body)
			}
		}
	}
	e.fail(x, "not an assignable location")
	return nil
}

func (e *Env) fieldLV(base TV, name string, n ast.Node) []LV {
	vc := e.vc
	okey, named, _ := ownerKeyOf(base.S.Go)
	if okey != "" {
		ck := typeKey(base.S.Go)
		for _, b := range vc.specs.Bindings {
			if b.Concrete == ck && b.Field == name {
				be := &Env{vc: vc, pkg: b.Pkg, vars: map[string]TV{b.RecvName: base}, heap: e.heap, old: e.old, tparams: e.typeArgEnv(named), facts: e.facts, qfacts: e.qfacts}
				var out []LV
				if len(b.Footprint) > 0 {
					for _, fe := range b.Footprint {
						out = append(out, be.lvals(fe)...)
					}
				} else {
					out = be.lvals(b.Expr)
				}
				// the interface-level slot of the same object is dead storage (reads go through the binding): writable too
				if gf, ok := vc.specs.GhostFields[b.Iface+"."+name]; ok {
					out = append(out, e.ghostLV(gf, base, nil))
				}
				return out
			}
		}
		if gf, ok := vc.specs.GhostFields[okey+"."+name]; ok {
			out := []LV{e.ghostLV(gf, base, named)}
			if base.S.Sort == "Iface" {
				for _, b := range vc.specs.Bindings {
					if !vc.seesRepresentation(b) {
						continue
					}
					if b.Iface == okey && b.Field == name {
						ct := e.concreteTypeOf(b)
						be := &Env{vc: vc, pkg: b.Pkg, vars: map[string]TV{b.RecvName: {T: app("pl", base.T), S: goSType(ct)}}, heap: e.heap, old: e.old, facts: e.facts, qfacts: e.qfacts}
						if len(b.Footprint) > 0 {
							for _, fe := range b.Footprint {
								out = append(out, be.lvals(fe)...)
							}
						} else {
							out = append(out, be.lvals(b.Expr)...)
						}
					}
				}
			}
			return out
		}
	}
	if base.S.Go != nil {
		obj, path, _ := types.LookupFieldOrMethod(base.S.Go, true, pkgTypes(e.pkg), name)
		if obj == nil {
			obj, path = lookupFieldAnyPkg(base.S.Go, name)
		}
		if fv, ok := obj.(*types.Var); ok && fv.IsField() {
			cur := base
			for _, idx := range path[:len(path)-1] {
				cur = vc.stepField(e.heap, cur, idx)
				e.noteAllocated(cur)
			}
			t := types.Unalias(cur.S.Go)
			if p, ok := t.Underlying().(*types.Pointer); ok {
				t = types.Unalias(p.Elem())
			}
			st := t.Underlying().(*types.Struct)
			f := st.Field(path[len(path)-1])
			arr, subobj := fieldArr(t, f)
			if subobj {
				e.fail(n, "by-value struct field is not a single location")
			}
			fs := sortOf(f.Type())
			vc.hget(e.heap, arr, arrSort(fs))
			return []LV{{Arr: arr, Sort: arrSort(fs), Idx: cur.T}}
		}
		if gfs := vc.specs.GhostByName[name]; len(gfs) == 1 {
			return []LV{e.ghostLV(gfs[0], base, named)}
		}
	}
	e.fail(n, "no field %s", name)
	return nil
}

func (e *Env) ghostLV(gf *GhostField, base TV, named *types.Named) LV {
	vc := e.vc
	ge := &Env{vc: vc, pkg: gf.Pkg, vars: map[string]TV{}, heap: e.heap, old: e.old, tparams: e.typeArgEnv(named)}
	st := ge.resolveType(gf.Type)
	arr := ghostArrName(gf, named)
	vc.hget(e.heap, arr, arrSort(st.Sort))
	return LV{Arr: arr, Sort: arrSort(st.Sort), Idx: ghostIndex(base)}
}

func posString(w *World, p token.Pos) string {
	if !p.IsValid() {
		return "?"
	}
	pp := w.Fset.Position(p)
	f := strings.TrimPrefix(pp.Filename, w.RepoDir+"/")
	return fmt.Sprintf("%s:%d", f, pp.Line)
}
