package main

import (
	"fmt"
	"go/ast"
	"go/token"
	"go/types"
	"os"
	"sort"
	"strings"

	"golang.org/x/tools/go/packages"
	"golang.org/x/tools/go/ssa"
	"golang.org/x/tools/go/ssa/ssautil"
)

const repoModule = "github.com/go-kid/ioc"

// World is everything loaded from /repo for one run.
type World struct {
	Fset    *token.FileSet
	Pkgs    []*packages.Package
	Prog    *ssa.Program
	SSAPkgs map[string]*ssa.Package // by import path
	ByName  map[string][]*packages.Package
	AllPkgs map[string]*packages.Package
	RepoDir string
	fnCache map[string]*ssa.Function
}

func loadWorld(repoDir string, patterns []string) (*World, error) {
	fset := token.NewFileSet()
	cfg := &packages.Config{
		Mode: packages.NeedName | packages.NeedFiles | packages.NeedCompiledGoFiles | packages.NeedImports |
			packages.NeedDeps | packages.NeedTypes | packages.NeedSyntax | packages.NeedTypesInfo | packages.NeedTypesSizes | packages.NeedModule,
		Dir:        repoDir,
		Fset:       fset,
		BuildFlags: []string{"-tags=verif"},
		Env: append(os.Environ(), "GOFLAGS=-mod=mod", "GOPROXY=off", "GOSUMDB=off", "GOTOOLCHAIN=local",
			"GOWORK=off"),
		ParseFile: nil,
	}
	pkgs, err := packages.Load(cfg, patterns...)
	if err != nil {
		return nil, err
	}
	var errs []string
	packages.Visit(pkgs, nil, func(p *packages.Package) {
		for _, e := range p.Errors {
			errs = append(errs, e.Error())
		}
	})
	if len(errs) > 0 {
		return nil, fmt.Errorf("package load errors:\n%s", strings.Join(errs, "\n"))
	}
	prog, _ := ssautil.AllPackages(pkgs, ssa.GlobalDebug|ssa.BuildSerially)
	prog.Build()
	w := &World{Fset: fset, Pkgs: pkgs, Prog: prog, SSAPkgs: map[string]*ssa.Package{}, ByName: map[string][]*packages.Package{},
		AllPkgs: map[string]*packages.Package{}, RepoDir: repoDir}
	packages.Visit(pkgs, nil, func(p *packages.Package) {
		w.AllPkgs[p.PkgPath] = p
		w.ByName[p.Name] = append(w.ByName[p.Name], p)
		if sp := prog.Package(p.Types); sp != nil {
			w.SSAPkgs[p.PkgPath] = sp
		}
	})
	return w, nil
}

// isRepoPkg reports whether the import path belongs to the repository under verification.
func isRepoPkg(path string) bool {
	return path == repoModule || strings.HasPrefix(path, repoModule+"/")
}

// funcKey is the canonical name of a function used to look up contracts:
//
//	pkgpath.Func, (*pkgpath.T).M, (pkgpath.T).M, pkgpath.Func$1 for closures.
//
// Instantiations of generics map to their origin.
func funcKey(fn *ssa.Function) string {
	if o := fn.Origin(); o != nil {
		fn = o
	}
	if fn.Parent() != nil {
		// anonymous function: parent key + $n
		name := fn.Name() // e.g. doGetComponent$1
		idx := strings.LastIndex(name, "$")
		return funcKey(fn.Parent()) + name[idx:]
	}
	if recv := fn.Signature.Recv(); recv != nil {
		return "(" + typeKey(recv.Type()) + ")." + fn.Name()
	}
	if fn.Pkg != nil {
		return fn.Pkg.Pkg.Path() + "." + fn.Name()
	}
	if fn.Object() != nil && fn.Object().Pkg() != nil {
		return fn.Object().Pkg().Path() + "." + fn.Name()
	}
	return fn.String()
}

// typeKey renders a receiver type without type arguments: *pkg.T, pkg.T.
func typeKey(t types.Type) string {
	switch t := t.(type) {
	case *types.Pointer:
		return "*" + typeKey(t.Elem())
	case *types.Named:
		o := t.Obj()
		if o.Pkg() != nil {
			return o.Pkg().Path() + "." + o.Name()
		}
		return o.Name()
	case *types.Alias:
		return typeKey(types.Unalias(t))
	}
	return t.String()
}

// methodKey is the contract key for an interface method.
func ifaceMethodKey(m *types.Func) string {
	sig := m.Type().(*types.Signature)
	if r := sig.Recv(); r != nil {
		return "(" + typeKey(r.Type()) + ")." + m.Name()
	}
	return m.FullName()
}

// allFunctions returns every function (incl. anonymous, methods) with a body in repo packages.
func (w *World) repoFunctions() map[string]*ssa.Function {
	out := map[string]*ssa.Function{}
	for fn := range ssautil.AllFunctions(w.Prog) {
		if fn == nil || fn.Blocks == nil {
			continue
		}
		if fn.Synthetic != "" && fn.Origin() == nil && fn.Parent() == nil {
			// wrappers, thunks, bound methods, init
			if !strings.HasPrefix(fn.Synthetic, "instance of") {
				continue
			}
		}
		if fn.Origin() != nil {
			continue // instantiations: verified once through their origin
		}
		p := fn.Pkg
		if p == nil && fn.Parent() != nil {
			p = fn.Parent().Pkg
		}
		if p == nil && fn.Object() != nil && fn.Object().Pkg() != nil {
			p = w.Prog.Package(fn.Object().Pkg())
		}
		if p == nil || !isRepoPkg(p.Pkg.Path()) {
			continue
		}
		out[funcKey(fn)] = fn
	}
	return out
}

func sortedKeys[V any](m map[string]V) []string {
	ks := make([]string, 0, len(m))
	for k := range m {
		ks = append(ks, k)
	}
	sort.Strings(ks)
	return ks
}

// contractFiles returns the zz_contracts_verif.go syntax trees of repo packages.
func (w *World) contractFiles() map[*packages.Package][]*ast.File {
	out := map[*packages.Package][]*ast.File{}
	for _, p := range w.AllPkgs {
		if !isRepoPkg(p.PkgPath) {
			continue
		}
		for i, f := range p.CompiledGoFiles {
			if strings.HasSuffix(f, "zz_contracts_verif.go") && i < len(p.Syntax) {
				out[p] = append(out[p], p.Syntax[i])
			}
		}
	}
	return out
}
