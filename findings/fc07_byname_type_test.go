package builtin_inject

// Demonstration of F-C07: a by-name injection point whose named component cannot be assigned to the field's type makes
// start-up panic inside reflect.Value.Set instead of failing with an error (required) or leaving the field untouched
// (optional).

import (
	"testing"

	"github.com/go-kid/ioc"
	"github.com/go-kid/ioc/app"
)

type fc07T1 struct{}

func (t *fc07T1) Naming() string { return "nm" }

type fc07T2 struct{}

type fc07Required struct {
	F *fc07T2 `wire:"nm"`
}

type fc07Optional struct {
	F *fc07T2 `wire:"nm,required=false"`
}

func fc07Run(t *testing.T, comps ...any) (err error) {
	defer func() {
		if r := recover(); r != nil {
			t.Fatalf("start-up panicked instead of reporting an error: %v", r)
		}
	}()
	_, err = ioc.Run(app.LogError, app.SetComponents(comps...))
	return err
}

func TestFindingC07NamedComponentOfIncompatibleTypeRequired(t *testing.T) {
	if err := fc07Run(t, &fc07Required{}, &fc07T1{}); err == nil {
		t.Fatalf("required by-name point with an incompatible component must fail start-up with an error")
	}
}

func TestFindingC07NamedComponentOfIncompatibleTypeOptional(t *testing.T) {
	h := &fc07Optional{}
	if err := fc07Run(t, h, &fc07T1{}); err != nil {
		t.Fatalf("optional point must not fail start-up: %v", err)
	}
	if h.F != nil {
		t.Fatalf("optional point without assignable target must stay nil")
	}
}
