#!/bin/bash
# thorough tier for every claimed property, one after the other (used for validation runs)
cd /verif
for p in "$@"; do
  /usr/bin/time -f "$p %es" ./bin/govc check -property $p -tier thorough 2>&1 | grep -E "VIOLATION|SELFTEST|UNBOUND|ERROR|^property|^C[0-9][0-9] "
done
echo sweep-done
