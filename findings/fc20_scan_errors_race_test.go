package factory

// Demonstration of F-C20: applyDefinitionRegistryPostProcessors runs one goroutine per registered component and every
// failing goroutine appends to the same errs slice without synchronisation. Run under the race detector
// (go test -race): with two or more failing scans the detector reports the conflicting appends; without -race the test
// still counts lost errors (appends overwriting one another).

import (
	"errors"
	"fmt"
	"strings"
	"testing"

	"github.com/go-kid/ioc/container"
	"github.com/go-kid/ioc/container/support"
)

type fc20FailingScanner struct{}

func (fc20FailingScanner) PostProcessDefinitionRegistry(registry container.DefinitionRegistry, component any, componentName string) error {
	return errors.New("scan failed")
}

type fc20Comp struct{ N int }

func TestFindingC20ConcurrentScanFailuresAreAllReported(t *testing.T) {
	const n = 64
	for round := 0; round < 20; round++ {
		f := Default().(*defaultFactory)
		f.SetRegistry(support.NewRegistry())
		f.registeredComponents = map[string]any{}
		for i := 0; i < n; i++ {
			f.registeredComponents[fmt.Sprintf("c%d", i)] = &fc20Comp{N: i}
		}
		f.definitionRegistryPostProcessors = []container.DefinitionRegistryPostProcessor{fc20FailingScanner{}}
		err := f.postProcessorRegistrationDelegate.applyDefinitionRegistryPostProcessors(f)
		if err == nil {
			t.Fatalf("round %d: all %d scans failed but no error was reported", round, n)
		}
		if got := strings.Count(err.Error(), "scan failed"); got != n {
			t.Fatalf("round %d: %d scans failed, %d errors reported (lost updates on the shared slice)", round, n, got)
		}
	}
}
