package framework_helper

// Replay driver for orderedComponentComparator: two Order() values from the counter-model; the real comparator
// must answer "first is strictly smaller" exactly when it is.

import (
	"encoding/json"
	"fmt"
	"os"
	"strconv"
	"strings"
	"testing"
)

type rcOC struct{ o int }

func (c rcOC) Order() int { return c.o }

func rcInt(s string) (int, bool) {
	s = strings.TrimSpace(s)
	s = strings.ReplaceAll(s, "(- ", "-")
	s = strings.Trim(s, "() ")
	s = strings.ReplaceAll(s, " ", "")
	v, err := strconv.ParseInt(s, 10, 64)
	return int(v), err == nil
}

func TestGovcReplayComparator(t *testing.T) {
	raw, err := os.ReadFile(os.Getenv("GOVC_REPLAY_JSON"))
	if err != nil {
		t.Skip("GOVC-REPLAY: SKIP no input")
	}
	var in struct {
		Probes map[string]string `json:"probes"`
	}
	json.Unmarshal(raw, &in)
	a, ok1 := rcInt(in.Probes["ord_i"])
	b, ok2 := rcInt(in.Probes["ord_j"])
	if !ok1 || !ok2 {
		fmt.Println("GOVC-REPLAY: SKIP Order values not concretisable:", in.Probes)
		t.Skip()
	}
	got := orderedComponentComparator[any](rcOC{a}, rcOC{b})
	fmt.Printf("GOVC-REPLAY: comparator(Order=%d, Order=%d) = %v\n", a, b, got)
	if got != (a < b) {
		fmt.Printf("GOVC-REPLAY: VIOLATION [compares-order] comparator(%d, %d) = %v, want %v\n", a, b, got, a < b)
		t.Fail()
	} else {
		fmt.Println("GOVC-REPLAY: OK")
	}
}
