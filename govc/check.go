package main

import (
	"bufio"
	"encoding/json"
	"fmt"
	"os"
	"os/exec"
	"path/filepath"
	"sort"
	"strconv"
	"strings"
	"time"
)

// KnownFinding is one line of /verif/known_findings.jsonl.
type KnownFinding struct {
	Property   string `json:"property"`
	Obligation string `json:"obligation"` // shortFuncKey/[label] (with @callee for requires)
	Status     string `json:"status"`     // open | fixed
	What       string `json:"what"`
	Witness    string `json:"witness,omitempty"` // informal description of the failing class
	Commit     string `json:"commit,omitempty"`
	Input      string `json:"input,omitempty"`
}

func loadKnownFindings(path string) ([]KnownFinding, error) {
	f, err := os.Open(path)
	if err != nil {
		if os.IsNotExist(err) {
			return nil, nil
		}
		return nil, err
	}
	defer f.Close()
	var out []KnownFinding
	sc := bufio.NewScanner(f)
	sc.Buffer(make([]byte, 1<<20), 1<<20)
	for sc.Scan() {
		line := strings.TrimSpace(sc.Text())
		if line == "" || strings.HasPrefix(line, "#") || strings.HasPrefix(line, "//") {
			continue
		}
		var k KnownFinding
		if err := json.Unmarshal([]byte(line), &k); err != nil {
			return nil, fmt.Errorf("%s: %v", path, err)
		}
		out = append(out, k)
	}
	return out, sc.Err()
}

type oblSummary struct {
	Name   string `json:"name"`
	Kind   string `json:"kind"`
	Site   string `json:"site"`
	Paths  int    `json:"paths"`
	Status string `json:"status"`
	Solver string `json:"solver"`
	Ms     int64  `json:"ms"`
}

type evidence struct {
	PropertyID  string         `json:"property_id"`
	Tier        string         `json:"tier"`
	Seed        int            `json:"seed"`
	Level       string         `json:"level"`
	Coverage    map[string]any `json:"coverage"`
	Assumptions []string       `json:"assumptions"`
	WallS       float64        `json:"wall_s"`
	Violations  int            `json:"violations"`
}

// standing assumptions reported with every evidence file (DESIGN section 3)
var standingAssumptions = []string{
	"A-INT: Go integers are mathematical integers in the logic; every +,-,* executed by a verified function carries a no-overflow obligation (64-bit ranges), values entering a function are assumed in their type's range, lengths are assumed <= 2^56",
	"A-APPEND: append is modelled as returning a fresh backing array (no two live headers of different length share an appended-to array)",
	"A-SEQ: outside the two fork sites the container runs single-threaded",
	"A-CALLBACK: user implementations of container interfaces satisfy the interface-level contracts in */zz_contracts_verif.go",
	"A-LOG: logging/formatting/error construction have no effect on verified state",
	"A-ENGINE: the VC generator govc (SSA symbolic execution, heap encoding, contract language) is part of the trusted base; the must-fail corpus under /verif/selftest is its main defence",
	"A-ABSTRACTION: interface-level model fields of an object equal their bound definitions (bind directives)",
}

func cmdCheck(args []string) int {
	o := parseOpts(args)
	if o.prop == "" {
		fmt.Fprintln(os.Stderr, "govc check: -property required")
		return 2
	}
	if o.prop == "ANY" && !o.scratch {
		// every contract, whatever property it is claimed for: a development aid, never an evidence-writing check
		fmt.Fprintln(os.Stderr, "govc check: -property ANY needs -scratch")
		return 2
	}
	t0 := time.Now()
	seed := 0
	if s := os.Getenv("VERIF_SEED"); s != "" {
		seed, _ = strconv.Atoi(s)
	}
	out, err := generate(o)
	if err != nil {
		fmt.Fprintln(os.Stderr, "govc: engine error:", err)
		return 2
	}
	known, err := loadKnownFindings(filepath.Join(o.verif, "known_findings.jsonl"))
	if err != nil {
		fmt.Fprintln(os.Stderr, "govc:", err)
		return 2
	}
	var all []*Obligation
	var funcs []string
	trusted := map[string]bool{}
	var engineErrs []string
	var coneFuncs []string
	for _, r := range out.results {
		funcs = append(funcs, shortFuncKey(r.Key))
		if r.Cone {
			coneFuncs = append(coneFuncs, shortFuncKey(r.Key))
		}
		for _, t := range r.Trust {
			trusted[t] = true
		}
		if r.Err != "" {
			engineErrs = append(engineErrs, shortFuncKey(r.Key)+": "+r.Err)
		}
		for _, ob := range r.Obls {
			// an obligation without any property attribution belongs to every property whose check reaches its function:
			// nothing generated is ever dropped silently
			if ob.Kind == "cover" || len(ob.Props) == 0 || hasProp(ob.Props, o.prop) || o.prop == "ANY" {
				all = append(all, ob)
			}
		}
	}
	if len(out.results) == 0 {
		fmt.Fprintf(os.Stderr, "govc: no function under contract for property %s\n", o.prop)
		return 2
	}
	for _, ob := range all {
		for i := range known {
			if known[i].Property == o.prop && known[i].Status == "open" && known[i].Obligation == ob.Name() {
				ob.ExpectedToFail = true // open known finding: confirm with a short budget that it still does not discharge
			}
		}
	}
	ts := time.Now()
	noRetry = o.scratch
	dischargeAll(all, o.tier, o.timeout, o.workers)
	solveS := time.Since(ts).Seconds()

	// group path-level queries into obligations (same function, label, callee, site)
	type group struct {
		name   string
		kind   string
		site   string
		obls   []*Obligation
		failed []*Obligation
	}
	groups := map[string]*group{}
	var order []string
	vacuity := []string{}
	infeasible := []string{}
	pathCovers := 0
	var solverMs int64
	deadHeads := map[string]bool{}
	for _, ob := range all {
		if ob.Expect == "pathcover" && strings.HasSuffix(ob.Label, ":head-reachable") && ob.Status == "unsat" {
			deadHeads[ob.Func+"|"+strings.TrimSuffix(ob.Label, ":head-reachable")+"|"+ob.Path] = true
		}
	}
	for _, ob := range all {
		solverMs += ob.Ms
		if ob.Expect == "pathcover" {
			pathCovers++
			if strings.HasSuffix(ob.Label, ":head-reachable") {
				continue // only the reference point for the later-iteration audit
			}
			if strings.Contains(ob.Label, "later-iteration-reachable") && deadHeads[ob.Func+"|"+strings.TrimSuffix(ob.Label, ":later-iteration-reachable")+"|"+ob.Path] {
				continue // the loop head itself is unreachable on this path (dead branch)
			}
			if ob.Status == "unsat" {
				if strings.Contains(ob.Label, "later-iteration-reachable") {
					infeasible = append(infeasible, shortFuncKey(ob.Func)+" "+ob.Label+": the loop-head state admits no iteration after the first (loop at "+ob.Site+")")
					fmt.Fprintf(os.Stderr, "audit: %s %s: the state assumed at the loop head admits no iteration after the first (listed in the evidence under vacuity_checks.infeasible_paths)\n", shortFuncKey(ob.Func), ob.Label)
				} else {
					infeasible = append(infeasible, shortFuncKey(ob.Func)+" path "+ob.Path+" (return at "+ob.Site+")")
				}
			}
			continue
		}
		if ob.Expect == "cover" {
			if ob.Status == "unsat" {
				vacuity = append(vacuity, ob.Name())
			}
			continue
		}
		key := ob.Name() + "@" + ob.Site
		g := groups[key]
		if g == nil {
			g = &group{name: ob.Name(), kind: ob.Kind, site: ob.Site}
			groups[key] = g
			order = append(order, key)
		}
		g.obls = append(g.obls, ob)
		if ob.Status != "unsat" {
			g.failed = append(g.failed, ob)
		}
	}
	sort.Strings(order)
	var summaries []oblSummary
	discharged := 0
	violations := 0
	knownHit := map[string]bool{}
	reported := map[string]bool{}
	replayDir := filepath.Join(o.verif, "replays")
	if o.scratch {
		if td, err := os.MkdirTemp("", "govc-scratch-replays-"); err == nil {
			replayDir = td
			defer os.RemoveAll(td)
		}
	}
	if old, _ := filepath.Glob(filepath.Join(replayDir, o.prop+"_*")); len(old) > 0 {
		for _, f := range old {
			os.Remove(f)
		}
	}
	var samples []any
	backends := map[string]int{}
	for _, key := range order {
		g := groups[key]
		st := "unsat"
		var ms int64
		solver := ""
		for _, ob := range g.obls {
			ms += ob.Ms
			if ob.Solver != "" {
				solver = ob.Solver
			}
		}
		if len(g.failed) > 0 {
			st = g.failed[0].Status
		}
		summaries = append(summaries, oblSummary{Name: g.name, Kind: g.kind, Site: g.site, Paths: len(g.obls), Status: st, Solver: solver, Ms: ms})
		backends[solver]++
		if len(g.failed) == 0 {
			discharged++
			if len(samples) < 3 && g.obls[0].Script != "" && g.kind == "ensures" {
				samples = append(samples, map[string]any{"obligation": g.name, "site": g.site, "clause": g.obls[0].Clause, "smt2": trunc(g.obls[0].Script, 6000)})
			}
			continue
		}
		// failed: known finding or violation
		var kf *KnownFinding
		for i := range known {
			if known[i].Property == o.prop && known[i].Status == "open" && known[i].Obligation == g.name {
				kf = &known[i]
			}
		}
		if kf != nil {
			if !knownHit[g.name] {
				fmt.Printf("KNOWN-FINDING: property=%s %s %s\n", o.prop, g.name, kf.What)
				knownHit[g.name] = true
			}
			continue
		}
		if reported[g.name] {
			continue
		}
		reported[g.name] = true
		violations++
		rp := writeReplay(o, replayDir, g.name, g.failed[0], out)
		suffix := ""
		if !rp.reproduced {
			suffix = " no-failing-input-found"
		}
		fmt.Printf("VIOLATION property=%s replay=%s%s\n", o.prop, rp.path, suffix)
		fmt.Printf("  obligation %s (%s) at %s: %s [%s]\n", g.name, g.kind, g.site, g.failed[0].Clause, g.failed[0].Status)
	}
	for _, e := range engineErrs {
		violations++
		name := "engine/" + sanitize(e[:min(len(e), 60)])
		ob := &Obligation{Func: "engine", Label: "contract-binds-to-code", Kind: "unbound", Clause: e, Status: "error", Output: e}
		rp := writeReplay(o, replayDir, name, ob, out)
		fmt.Printf("VIOLATION property=%s replay=%s no-failing-input-found\n", o.prop, rp.path)
		fmt.Printf("  UNBOUND %s\n", e)
	}
	for _, v := range vacuity {
		violations++
		ob := &Obligation{Func: "engine", Label: "vacuity", Kind: "cover", Clause: v + ": preconditions are unsatisfiable", Status: "unsat"}
		rp := writeReplay(o, replayDir, "vacuity/"+sanitize(v), ob, out)
		fmt.Printf("VIOLATION property=%s replay=%s no-failing-input-found\n", o.prop, rp.path)
		fmt.Printf("  VACUOUS %s\n", v)
	}
	// bounded stand-ins for trusted contracts on third-party code (labelled bounded; never counted as discharged)
	standins := runStandins(o)
	for _, sres := range standins {
		if ok, _ := sres["ok"].(bool); !ok {
			violations++
			ob := &Obligation{Func: "bounded", Label: "stand-in", Kind: "bounded", Clause: fmt.Sprint(sres["name"]), Status: "failed", Output: fmt.Sprint(sres["output"])}
			rp := writeReplay(o, replayDir, "bounded/"+sanitize(fmt.Sprint(sres["name"])), ob, out)
			fmt.Printf("VIOLATION property=%s replay=%s\n", o.prop, rp.path)
			fmt.Printf("  bounded stand-in failed: %v\n", sres["name"])
		}
	}
	total := len(order)
	level := "proof"
	openFindings := []string{}
	for n := range knownHit {
		openFindings = append(openFindings, n)
	}
	sort.Strings(openFindings)
	if len(openFindings) > 0 || discharged < total {
		level = "other"
	}
	// properties whose statement is only partly within reach of contracts: /verif/contracts/partial.json names the part
	// that is not decided; the level is then 'other' even when every generated obligation is discharged
	undecided := ""
	if b, err := os.ReadFile(filepath.Join(o.verif, "contracts", "partial.json")); err == nil {
		var pm map[string]string
		if json.Unmarshal(b, &pm) == nil && pm[o.prop] != "" {
			undecided = pm[o.prop]
			level = "other"
		}
	}
	var tb []string
	for t := range trusted {
		tb = append(tb, t)
	}
	sort.Strings(tb)
	sort.Strings(funcs)
	if len(samples) == 0 && len(all) > 0 {
		for _, ob := range all {
			if ob.Script != "" && ob.Expect == "" {
				samples = append(samples, map[string]any{"obligation": ob.Name(), "site": ob.Site, "clause": ob.Clause, "smt2": trunc(ob.Script, 6000)})
				break
			}
		}
	}
	cov := map[string]any{
		"obligations":              total,
		"discharged":               discharged,
		"checker_cmd":              fmt.Sprintf("/verif/bin/govc check -property %s -tier %s  (z3-new 5.1.0 -> cvc5 1.0 --enum-inst -> z3 4.8.12, %ds per query)", o.prop, o.tier, o.timeout),
		"trusted_base":             tb,
		"functions_under_contract": funcs,
		"of_which_in_the_callee_cone_only": coneFuncs,
		"path_queries":             len(all),
		"backends":                 backends,
		"solver_time_s":            float64(solverMs) / 1000.0,
		"load_s":                   out.loadS,
		"generate_s":               out.genS,
		"solve_wall_s":             solveS,
		"per_obligation":           summaries,
		"samples":                  samples,
		"vacuity_checks":           map[string]any{"requires_satisfiable_failed": vacuity, "obligations_nonzero": total > 0, "path_reachability_queries": pathCovers, "infeasible_paths": infeasible},
		"known_findings_open":      openFindings,
		"bounded_standins":         standins,
		"engine_errors":            engineErrs,
		"contract_files":           relFiles(out.specs.Files, o),
		"evaluations":              len(all),
		"distinct_nontrivial":      nontrivial(all),
		"rule":                     "one SMT query per (clause, program path); non-trivial = not discharged syntactically",
	}
	if level == "other" {
		cov["explanation"] = fmt.Sprintf("contract proof with %d of %d obligations discharged; undischarged obligations are listed in per_obligation (known findings: %v)", discharged, total, openFindings)
		if undecided != "" {
			cov["explanation"] = cov["explanation"].(string) + "; part of the property statement not decided by this check: " + undecided
			cov["not_decided"] = undecided
		}
	}
	selftestFailed := false
	if o.tier == "thorough" && !o.scratch && os.Getenv("GOVC_SKIP_CORPUS") == "1" {
		// development aid: the corpus is run separately (tools/run_seeds.py, tools/run_mutations.py)
		cov["must_fail_corpus"] = "skipped in this run (GOVC_SKIP_CORPUS=1); see /verif/seeded/SUMMARY.md and /verif/selftest/RESULTS.md"
	} else if o.tier == "thorough" && !o.scratch {
		corpus := runCorpus(o)
		cov["must_fail_corpus"] = corpus
		for _, c := range corpus {
			if c["applies"] == true && c["detected"] != true {
				selftestFailed = true
				fmt.Printf("SELFTEST-FAILED property=%s seeded change %v is not reported by this check\n", o.prop, c["seed"])
			}
		}
	}
	ev := evidence{PropertyID: o.prop, Tier: o.tier, Seed: seed, Level: level, Coverage: cov, Assumptions: assumptionsFor(o.prop, tb), WallS: time.Since(t0).Seconds(), Violations: violations}
	if !o.scratch {
		if err := writeJSON(filepath.Join(o.verif, "evidence", o.prop+".json"), ev); err != nil {
			fmt.Fprintln(os.Stderr, "govc: cannot write evidence:", err)
			return 2
		}
	}
	if selftestFailed && violations == 0 {
		defer os.Exit(2)
	}
	fmt.Printf("property %s: %d/%d obligations discharged (%d path queries, %d functions, %.1fs load, %.1fs solve); violations=%d known=%d\n",
		o.prop, discharged, total, len(all), len(funcs), out.loadS, solveS, violations, len(openFindings))
	if violations > 0 {
		return 1
	}
	return 0
}

func nontrivial(all []*Obligation) int {
	n := 0
	seen := map[string]bool{}
	for _, ob := range all {
		if ob.Solver == "syntactic" || ob.Script == "" {
			continue
		}
		k := ob.Name() + ob.Path
		if !seen[k] {
			seen[k] = true
			n++
		}
	}
	return n
}

func relFiles(fs []string, o *options) []string {
	var out []string
	for _, f := range fs {
		out = append(out, f)
	}
	return out
}

func assumptionsFor(prop string, trusted []string) []string {
	out := append([]string{}, standingAssumptions...)
	if extra, ok := propertyNotes[prop]; ok {
		out = append(out, extra...)
	}
	// everything this run relied on without proving it: trusted library contracts, interface-level contracts assumed
	// for callees reached by dynamic dispatch, axioms, named site assumptions, wiring preconditions, census exemptions
	for _, t := range trusted {
		out = append(out, "used unchecked in this run: "+t)
	}
	return out
}

// propertyNotes: what each property's check does not cover (DESIGN section 5), reported as assumptions.
var propertyNotes = map[string][]string{}

type replayResult struct {
	path       string
	reproduced bool
}

// writeReplay stores everything known about a failed obligation; when a replay driver exists for the obligation's
// group and the solver produced a model, the model is concretised and run against the real code.
func writeReplay(o *options, dir, name string, ob *Obligation, out *runOutput) replayResult {
	os.MkdirAll(dir, 0o755)
	base := filepath.Join(dir, o.prop+"_"+sanitize(name))
	rec := map[string]any{
		"property":      o.prop,
		"obligation":    name,
		"kind":          ob.Kind,
		"site":          ob.Site,
		"path":          ob.Path,
		"clause":        ob.Clause,
		"solver_status": ob.Status,
		"solver_output": ob.Output,
	}
	res := replayResult{path: base + ".json"}
	if ob.Script != "" {
		os.WriteFile(base+".smt2", []byte(ob.Script), 0o644)
		rec["smt2"] = base + ".smt2"
		model, vals, ok := findModelProbes(ob.Script, ob.Probes, o.timeout)
		if ok {
			rec["model_excerpt"] = trunc(model, 4000)
			rec["probe_values"] = vals
			if rr := runReplayDriver(o, name, ob, vals, base); rr != nil {
				rec["replay"] = rr
				if b, _ := rr["reproduced"].(bool); b {
					res.reproduced = true
				}
			} else {
				rec["replay"] = "no replay driver registered for this function"
			}
		} else {
			rec["model_excerpt"] = "no model: " + trunc(model, 500)
		}
	}
	if !res.reproduced {
		rec["result"] = "no-failing-input-found"
	} else {
		rec["result"] = "reproduced-on-real-code"
	}
	writeJSON(res.path, rec)
	return res
}

func min(a, b int) int {
	if a < b {
		return a
	}
	return b
}

// runStandins executes the bounded stand-ins registered for the property (bounded/standins.json).
func runStandins(o *options) []map[string]any {
	raw, err := os.ReadFile(filepath.Join(o.verif, "bounded", "standins.json"))
	if err != nil {
		return nil
	}
	var table map[string][]struct {
		Name     string   `json:"name"`
		Bin      string   `json:"bin"`
		Quick    []string `json:"quick"`
		Thorough []string `json:"thorough"`
		For      string   `json:"stands_in_for"`
		Bound    string   `json:"bound"`
	}
	if err := json.Unmarshal(raw, &table); err != nil {
		return []map[string]any{{"name": "standins.json", "ok": false, "output": err.Error()}}
	}
	var out []map[string]any
	for _, s := range table[o.prop] {
		args := s.Quick
		if o.tier == "thorough" {
			args = s.Thorough
		}
		t0 := time.Now()
		cmd := exec.Command(s.Bin, args...)
		b, err := cmd.CombinedOutput()
		res := map[string]any{"name": s.Name, "stands_in_for": s.For, "bound": s.Bound, "args": args, "label": "bounded (not a proof)",
			"ok": err == nil, "wall_s": time.Since(t0).Seconds()}
		var parsed map[string]any
		if json.Unmarshal(b, &parsed) == nil {
			res["result"] = parsed
		} else {
			res["output"] = trunc(string(b), 1000)
		}
		out = append(out, res)
	}
	return out
}


// runCorpus: the must-fail corpus of the thorough tier. Every kept seeded change of this property
// (/verif/seeded/<prop>-n/patch.diff) is applied to a scratch copy of the repository's working tree (outside /repo and
// /verif, removed afterwards) and the quick check is run on that copy; the change must be reported. A patch that no
// longer applies (the tree moved on) is recorded as such and not counted.
func runCorpus(o *options) []map[string]any {
	var out []map[string]any
	dirs, _ := filepath.Glob(filepath.Join(o.verif, "seeded", o.prop+"-*"))
	sort.Strings(dirs)
	var patches [][2]string // name, patch file
	for _, d := range dirs {
		patches = append(patches, [2]string{filepath.Base(d), filepath.Join(d, "patch.diff")})
	}
	// plus the author's own deliberate mutations (engine self-test, /verif/selftest/mutations)
	muts, _ := filepath.Glob(filepath.Join(o.verif, "selftest", "mutations", o.prop+"-m*.diff"))
	sort.Strings(muts)
	for _, m := range muts {
		patches = append(patches, [2]string{"mutation " + strings.TrimSuffix(filepath.Base(m), ".diff"), m})
	}
	self, _ := os.Executable()
	for _, pp := range patches {
		patch := pp[1]
		if _, err := os.Stat(patch); err != nil {
			continue
		}
		res := map[string]any{"seed": pp[0]}
		tmp, err := os.MkdirTemp("", "govc-corpus-")
		if err != nil {
			res["error"] = err.Error()
			out = append(out, res)
			continue
		}
		func() {
			defer os.RemoveAll(tmp)
			if b, err := exec.Command("rsync", "-a", "--exclude", ".git", o.repo+"/", tmp+"/").CombinedOutput(); err != nil {
				res["error"] = "copy: " + string(b)
				return
			}
			ap := exec.Command("git", "apply", patch)
			ap.Dir = tmp
			if b, err := ap.CombinedOutput(); err != nil {
				res["applies"] = false
				res["note"] = "patch does not apply to the current tree: " + trunc(string(b), 200)
				return
			}
			res["applies"] = true
			cmd := exec.Command(self, "check", "-property", o.prop, "-tier", "quick", "-repo", tmp, "-verif", o.verif, "-scratch")
			cmd.Env = append(os.Environ(), "GOFLAGS=-mod=mod", "GOPROXY=off", "GOSUMDB=off", "GOTOOLCHAIN=local")
			b, _ := cmd.CombinedOutput()
			txt := string(b)
			res["detected"] = strings.Contains(txt, "VIOLATION property="+o.prop)
			var by []string
			for _, ln := range strings.Split(txt, "\n") {
				ln = strings.TrimSpace(ln)
				if strings.HasPrefix(ln, "obligation") || strings.HasPrefix(ln, "UNBOUND") {
					by = append(by, trunc(ln, 200))
				}
			}
			if len(by) > 3 {
				by = by[:3]
			}
			res["reported_by"] = by
		}()
		out = append(out, res)
	}
	return out
}
