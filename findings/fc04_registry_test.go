package support

// Demonstration of F-C04 (run with: go test -overlay, see /verif/findings/README.md).
// A creating factory registers an early-reference factory and then fails. Property C04 demands that nothing of the
// failed attempt stays visible; on the unrepaired tree the mark and the early-reference factory survive and a later
// lookup returns the half-built instance with a nil error.

import (
	"errors"
	"testing"

	"github.com/go-kid/ioc/component_definition"
	"github.com/go-kid/ioc/container"
)

type fc04Comp struct{}

func TestFindingC04FailedCreateLeavesNothing(t *testing.T) {
	r := DefaultSingletonComponentRegistry()
	half := component_definition.NewMeta(&fc04Comp{})
	_, err := r.GetSingletonOrCreateByFactory("x", container.FuncSingletonFactory(func() (*component_definition.Meta, error) {
		r.AddSingletonFactory("x", container.FuncSingletonFactory(func() (*component_definition.Meta, error) { return half, nil }))
		return nil, errors.New("init failed")
	}))
	if err == nil {
		t.Fatal("expected creation error")
	}
	if r.IsSingletonCurrentlyInCreation("x") {
		t.Errorf("after failed creation the name is still reported as in creation")
	}
	m, err := r.GetSingleton("x", true)
	if m != nil || err != nil {
		t.Errorf("lookup after failed creation returned (%v, %v), want (nil, nil): the half-built instance is visible", m, err)
	}
}
