import Mathlib

/-!
A-FINSET (contracts/trusted/50_termination.spec): the three facts the termination measures use about
`Remaining u ic` = number of members of the finite set `u` that are not in `ic`.
`store ic k true` of the contract language is `insert k ic` here. Check with: lean /verif/lean/FinsetRemaining.lean (about 2 min).
-/

open Finset

variable {α : Type*} [DecidableEq α]

/-- the measure: members of `u` not (yet) marked in `ic` -/
def remaining (u : Finset α) (ic : Set α) [DecidablePred (· ∈ ic)] : ℕ := (u.filter (fun x => x ∉ ic)).card

omit [DecidableEq α] in
theorem remaining_non_negative (u : Finset α) (ic : Set α) [DecidablePred (· ∈ ic)] : 0 ≤ remaining u ic :=
  Nat.zero_le _

/-- marking an unmarked member of `u` lowers the measure by exactly one -/
theorem remaining_marks_member (u : Finset α) (ic : Set α) [DecidablePred (· ∈ ic)]
    [DecidablePred (· ∈ insert k ic)] (hk : k ∈ u) (hn : k ∉ ic) :
    remaining u (insert k ic) + 1 = remaining u ic := by
  unfold remaining
  have h : u.filter (fun x => x ∉ ic) = insert k (u.filter (fun x => x ∉ insert k ic)) := by
    ext x
    simp only [mem_filter, mem_insert, Set.mem_insert_iff, not_or]
    constructor
    · rintro ⟨hx, hxi⟩
      by_cases hxk : x = k
      · exact Or.inl hxk
      · exact Or.inr ⟨hx, hxk, hxi⟩
    · rintro (rfl | ⟨hx, _, hxi⟩)
      · exact ⟨hk, hn⟩
      · exact ⟨hx, hxi⟩
  rw [h, card_insert_of_notMem]
  simp [Set.mem_insert_iff]

/-- marking a name outside `u`, or one that is already marked, leaves the measure alone -/
theorem remaining_marks_outsider (u : Finset α) (ic : Set α) [DecidablePred (· ∈ ic)]
    [DecidablePred (· ∈ insert k ic)] (h : k ∉ u ∨ k ∈ ic) :
    remaining u (insert k ic) = remaining u ic := by
  unfold remaining
  congr 1
  ext x
  simp only [mem_filter, Set.mem_insert_iff, not_or]
  constructor
  · rintro ⟨hx, _, hxi⟩; exact ⟨hx, hxi⟩
  · rintro ⟨hx, hxi⟩
    refine ⟨hx, ?_, hxi⟩
    rintro rfl
    rcases h with h | h
    · exact h hx
    · exact hxi h
