module boundedstrings2

go 1.20

require github.com/go-kid/strings2 v0.0.1
