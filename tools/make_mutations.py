#!/usr/bin/env python3
"""make_mutations.py: (re)generate the engine self-test corpus /verif/selftest/mutations/*.diff from the table below.
Each entry is a small, compiling, deliberately property-breaking edit of one function under contract; the thorough
tier (and tools/run_mutations.py) applies each to a scratch copy and demands that the property's check reports it.
Unlike /verif/seeded (independent sub-agents), these are written by the author of the contracts: they test that a
contract is not vacuous, not that it anticipates what someone else would break."""
import json, os, subprocess, shutil, sys, tempfile
M = [
 # id, property, file, old, new, what
 ("C18-m01","C18","container/factory/post_processor_registration_delegate.go",
  "\tf.rawComponentPostProcessors = framework_helper.SortOrderedComponents(f.rawComponentPostProcessors)\n",
  "\t_ = framework_helper.SortOrderedComponents(f.rawComponentPostProcessors)\n","sorted processor list not stored"),
 ("C18-m02","C18","container/processors/orders.go",
  "\tPriorityOrderPropertyConfigQuoteAware\n\tPriorityOrderPropertyExpressionTagAware\n",
  "\tPriorityOrderPropertyExpressionTagAware\n\tPriorityOrderPropertyConfigQuoteAware\n","placeholder and expression order constants swapped"),
 ("C18-m03","C18","container/processors/expression_tag_aware_post_processors.go",
  "\t\tcontent, err := c.el.ReplaceAllContent(prop.TagVal, func(exp string) (string, error) {",
  "\t\tcontent, err := c.el.ReplaceAllContent(prop.TagStr, func(exp string) (string, error) {","expressions evaluated on the raw tag instead of the substituted text"),
 ("C18-m04","C18","container/processors/validate_aware_post_processors.go",
  "\t\t\t\tif err != nil {\n\t\t\t\t\treturn nil, errors.Wrapf(err, \"validate on variable field '%s' error\", prop)\n\t\t\t\t}",
  "\t\t\t\tif err != nil {\n\t\t\t\t\tcontinue\n\t\t\t\t}","variable validation error swallowed"),
 ("C09-m01","C09","container/factory/factory.go",
  "\terr := f.postProcessorRegistrationDelegate.InvokeBeanFactoryPostProcessors(f, factoryPostProcessors)\n\tif err != nil {\n\t\treturn err\n\t}",
  "\t_ = f.postProcessorRegistrationDelegate.InvokeBeanFactoryPostProcessors(f, factoryPostProcessors)","preparation error dropped"),
 ("C09-m02","C09","container/processors/value_aware_post_processors.go",
  "\t\t\tif prop.IsRequired() {\n\t\t\t\treturn nil, errors.Errorf(\"value on '%s' is required\", prop)\n\t\t\t}\n\t\t\tcontinue",
  "\t\t\tcontinue","required empty value no longer an error"),
 ("C09-m03","C09","app/app.go",
  "\tif err := s.refresh(); err != nil {\n\t\treturn errors.WithMessage(err, \"application components refresh failed\")\n\t}",
  "\t_ = s.refresh()","refresh error ignored before runners"),
 ("C09-m04","C09","container/factory/post_processor_registration_delegate.go",
  "\t\t\t\tif err != nil {\n\t\t\t\t\treturn errors.Wrapf(err, \"apply %T.PostProcessProperties() for component '%s'\", ipb, name)\n\t\t\t\t}",
  "\t\t\t\t_ = err","PostProcessProperties error ignored"),
 ("C11-m01","C11","component_definition/meta.go",
  "\tm.scanFields(NewHolder(m))\n\treturn m","\treturn m","NewMeta does not scan"),
 ("C11-m02","C11","util/reflectx/range_struct.go",
  "\tfor i := 0; i < t.NumField(); i++ {","\tfor i := 0; i <= t.NumField(); i++ {","field loop runs one past the end"),
 ("C11-m03","C11","container/processors/default_tag_scan_definition_registry_post_processor.go",
  "\t\t\t\tproperties = append(properties, component_definition.NewProperty(field, d.NodeType, d.Tag, tagVal))\n\t\t\t\tcontinue",
  "\t\t\t\tproperties = append(properties, component_definition.NewProperty(field, d.NodeType, d.Tag, tagVal))","tagged field also offered to the handler (may yield two properties)"),
 ("C11-m04","C11","component_definition/meta.go",
  "\t\tm.propertyGroup[prop.PropertyType] = append(m.propertyGroup[prop.PropertyType], prop)",
  "\t\tm.propertyGroup[prop.PropertyType] = []*Property{prop}","SetProperties keeps only the last property of a group"),
 ("C06-m01","C06","container/support/component_definition_registry.go",
  "\t\tif container.And(opts...)(m) {","\t\tif container.Or(opts...)(m) {","GetMetas accepts a definition when ANY option holds"),
 ("C10-m01","C10","container/support/singleton_registry.go",
  "\t\tnames = append(names, key)\n\t\treturn true","\t\tnames = append(names, key)\n\t\treturn len(names) < 8","GetSingletonNames stops after eight names"),
 ("C20-m01","C20","util/sync2/map.go",
  "\tactual, loaded := m.m.LoadOrStore(key, value)\n\treturn actual.(V), loaded",
  "\tif actual, loaded := m.m.Load(key); loaded {\n\t\treturn actual.(V), true\n\t}\n\tm.m.Store(key, value)\n\treturn value, false","LoadOrStore as Load followed by Store"),
 ("C20-m02","C20","container/factory/post_processor_registration_delegate.go",
  "\t\t\t\t\tmu.Lock()\n\t\t\t\t\terrs = append(errs, errors.WithMessage(err, name))\n\t\t\t\t\tmu.Unlock()",
  "\t\t\t\t\tmu.Lock()\n\t\t\t\t\tmu.Unlock()\n\t\t\t\t\terrs = append(errs, errors.WithMessage(err, name))","scan error list appended after the mutex was released"),
 ("C20-m03","C20","util/list/concurrent_set.go",
  "\tr.cm.Delete(s)\n}","\tif _, ok := r.cm.Load(s); ok {\n\t\tr.cm.Store(s, struct{}{})\n\t\tr.cm.Delete(s)\n\t}\n}","Remove writes before its last atomic step"),
 ("C16-m01","C16","util/el/el.go",
  "\t\tif round >= maxReplaceRounds {","\t\tif false && round >= maxReplaceRounds {","round bound disabled"),
 ("C16-m02","C16","container/processors/config_quote_aware_post_processors.go",
  "\t\t\tif expVal == nil {\n\t\t\t\tuseDefaultValue = true\n\t\t\t} else if","\t\t\tif expVal != nil && len(spExp) == 2 {\n\t\t\t\tuseDefaultValue = true\n\t\t\t} else if","default wins over a configured value"),
 ("C13-m01","C13","app/app.go",
  "\t\tif err != nil {\n\t\t\treturn errors.Wrapf(err, \"invoking Run() for runner '%T'\", runner)\n\t\t}","\t\t_ = err","runner error ignored, later runners still run"),
 ("C14-m01","C14","app/app.go",
  "\twg.Wait()\n","","Close returns without waiting"),
 ("C05-m01","C05","container/factory/post_processor_registration_delegate.go",
  "\terr = f.invokeInitMethods(name, wrappedComponent)\n\tif err != nil {\n\t\treturn nil, err\n\t}\n","","init methods never invoked"),
 ("C04-m01","C04","container/support/singleton_component_registry.go",
  "\tr.logger().Tracef(\"singleton '%s' finished creating\", name)\n\tr.singletonCurrentlyInCreation.Remove(name)","\tr.logger().Tracef(\"singleton '%s' finished creating\", name)","creation mark not removed after a successful creation"),
 ("C19-m01","C19","component_definition/arg.go",
  "\treturn ArgType(strings.ToUpper(t[:1]) + t[1:])","\treturn ArgType(strings.ToUpper(t))","argument names upper-cased entirely"),
 ("C12-m01","C12","util/framework_helper/order_component.go",
  "\treturn any(i).(definition.Ordered).Order() < any(j).(definition.Ordered).Order()","\treturn any(i).(definition.Ordered).Order() <= any(j).(definition.Ordered).Order()","comparator not strict"),
 ("C15-m01","C15","configure/configure.go",
  "\tc.loaders = append(c.loaders, loaders...)","\tc.loaders = append(loaders, c.loaders...)","added loaders put in front of the earlier ones"),
 ("C07-m01","C07","container/support/singleton_registry.go",
  "\tif exist, loaded := r.componentsMap.Load(name); loaded {","\tif exist, loaded := r.componentsMap.Load(name); loaded && false {","a second component under the same name replaces the first"),
 ("C08-m01","C08","component_definition/property.go",
  "\treturn !n.args.Has(ArgRequired, \"false\")","\treturn n.args.Has(ArgRequired, \"true\")","only an explicit required=true makes a point required"),
 ("C01-m01","C01","component_definition/property.go",
  "\t\tn.Value.Set(m.Value)","\t\tn.Value.Set(reflect.New(m.Type.Elem()))","single-valued point gets a fresh copy instead of the shared instance"),
 ("C02-m01","C02","component_definition/property.go",
  "\t\treturn !n.Holder.Meta.IsSelf(m)","\t\treturn true","self candidates no longer removed in Inject"),
 ("C03-m01","C03","container/factory/factory.go",
  "\tif exposedComponent != m.Raw {","\tif false && exposedComponent != m.Raw {","early reference never proxied"),
 # ---- second batch ----
 ("C05-m02","C05","container/factory/factory.go",
  "\terr := f.populateComponent(name, meta)\n\tif err != nil {\n\t\treturn nil, err\n\t}\n\n\tinstance := meta.Raw\n\twrappedInstance, err := f.postProcessorRegistrationDelegate.InitializeComponent(name, instance)\n\tif err != nil {\n\t\treturn nil, err\n\t}",
  "\tinstance := meta.Raw\n\twrappedInstance, err := f.postProcessorRegistrationDelegate.InitializeComponent(name, instance)\n\tif err != nil {\n\t\treturn nil, err\n\t}\n\terr = f.populateComponent(name, meta)\n\tif err != nil {\n\t\treturn nil, err\n\t}","initialization before population"),
 ("C01-m02","C01","container/factory/factory.go",
  "\t\t\tif exposedComponent == meta {\n\t\t\t\texposedComponent = earlySingletonReference","\t\t\tif exposedComponent == meta {\n\t\t\t\texposedComponent = meta","early reference not published when initialization did not wrap"),
 ("C02-m02","C02","container/factory/factory.go",
  "\tearlySingletonExposure := meta.IsSingleton() && f.allowCircularReferences && f.singletonComponentRegistry.IsSingletonCurrentlyInCreation(name)",
  "\tearlySingletonExposure := meta.IsSingleton() && f.allowCircularReferences && !f.singletonComponentRegistry.IsSingletonCurrentlyInCreation(name)","early exposure only when NOT in creation"),
 ("C10-m02","C10","container/factory/factory.go",
  "\tsort2.Slice(names, func(i, j string) bool {\n\t\treturn i < j\n\t})\n","\tsort2.Slice(names, func(i, j string) bool {\n\t\treturn false\n\t})\n","Refresh with a comparator that never orders (creation order = enumeration order)"),
 ("C06-m02","C06","component_definition/property.go",
  "\t\tfor i, m := range metas {\n\t\t\tn.Value.Index(i).Set(m.Value)","\t\tfor i, m := range metas {\n\t\t\tn.Value.Index(i).Set(metas[0].Value)","slice point filled with the first candidate only"),
 ("C02-m03","C02","component_definition/property.go",
  "\tif len(metas) == 0 {\n\t\tif isRequired {\n\t\t\treturn errors.Errorf(\"inject '%s':%s: self inject not allowed\", n, n.Holder.Stack())\n\t\t}\n\t\treturn nil\n\t}",
  "\tif len(metas) == 0 {\n\t\treturn nil\n\t}","required self-only point silently ignored"),
 ("C19-m02","C19","component_definition/arg.go",
  "\t\tm.Set(ArgType(exp[:spIdx]), strings2.Split(exp[spIdx+1:], \" \", strings2.DefaultSplitBlock)...)",
  "\t\tm.Set(ArgType(exp[:spIdx]), strings2.Split(exp[spIdx:], \" \", strings2.DefaultSplitBlock)...)","argument values keep the '=' sign"),
 ("C19-m03","C19","component_definition/arg.go",
  "\tm[argType] = append(m[argType], val...)","\tm[argType] = val","Add replaces instead of appending"),
 ("C12-m02","C12","util/framework_helper/order_component.go",
  "\tordered = append(ordered, priorityOrderedComponents...)\n\tordered = append(ordered, orderedComponents...)",
  "\tordered = append(ordered, orderedComponents...)\n\tordered = append(ordered, priorityOrderedComponents...)","ordered class placed before the priority class"),
 ("C12-m03","C12","util/framework_helper/order_component.go",
  "\tsort2.Slice(orderedComponents, orderedComponentComparator[T])\n","","ordered class left unsorted"),
 ("C13-m02","C13","app/app.go",
  "\ts.ApplicationRunners = nil\n\ts.logger().Info(\"all runners started\")","\ts.logger().Info(\"all runners started\")","runner list kept after the run (a second run would repeat them)"),
 ("C14-m02","C14","app/app.go",
  "\t\twg.Add(len(s.CloserComponents))","\t\twg.Add(len(s.CloserComponents) - 1)","WaitGroup counts one closer too few"),
 ("C15-m02","C15","configure/configure.go",
  "\tc.loaders = loaders","\tc.loaders = append(c.loaders, loaders...)","SetLoaders keeps the earlier loaders"),
 ("C04-m02","C04","container/support/singleton_component_registry.go",
  "\tr.singletonObjects.Store(name, meta)\n\tr.earlySingletonObjects.Delete(name)\n","\tr.singletonObjects.Store(name, meta)\n","AddSingleton leaves the early reference behind"),
 ("C07-m02","C07","util/framework_helper/component.go",
  "\tif n, ok := c.(definition.NamingComponent); ok {","\tif n, ok := c.(definition.NamingComponent); ok && false {","custom names ignored"),
 ("C08-m02","C08","container/processors/dependency_further_matching_processors.go",
  "\t\t\t\tprop.Injects = nil\n\t\t\t\tcontinue","\t\t\t\tcontinue","candidates kept when narrowing finds none"),
 ("C09-m05","C09","container/processors/dependency_further_matching_processors.go",
  "\t\t\t\tif prop.IsRequired() {\n\t\t\t\t\treturn nil, errors.WithMessagef(err, \"field '%s' is required but not found any components\", prop.String())\n\t\t\t\t}\n","","required component point without candidates no longer an error"),
 ("C16-m03","C16","util/el/el.go",
  "\t\tif err != nil {\n\t\t\treturn \"\", err\n\t\t}\n\t\tresult = strings.Replace(result, elr, r, 1)","\t\t_ = err\n\t\tresult = strings.Replace(result, elr, r, 1)","replacement callback error ignored"),
 ("C18-m05","C18","container/factory/post_processor_registration_delegate.go",
  "\tfor _, processor := range f.componentPostProcessors {\n\t\tif ipb, ok := processor.(container.InstantiationAwareComponentPostProcessor); ok {\n\t\t\tok, err := ipb.PostProcessAfterInstantiation(meta.Raw, name)",
  "\tfor i := len(f.componentPostProcessors) - 1; i >= 0; i-- {\n\t\tprocessor := f.componentPostProcessors[i]\n\t\tif ipb, ok := processor.(container.InstantiationAwareComponentPostProcessor); ok {\n\t\t\tok, err := ipb.PostProcessAfterInstantiation(meta.Raw, name)","properties stage applied in reverse list order"),
 ("C20-m04","C20","app/app.go",
  "\t\t\t\tdefer wg.Done()\n","","closer goroutine never calls Done"),
 # ---- third batch: termination (C02: start-up always terminates) ----
 ("C02-m04","C02","component_definition/meta.go",
  "\t\tif field.Anonymous && field.Tag == \"\" && field.Type.Kind() == reflect.Struct {",
  "\t\tif field.Anonymous && field.Tag == \"\" && (field.Type.Kind() == reflect.Struct || field.Type.Kind() == reflect.Ptr) {","embedded pointers entered too (a self-referential type recurses forever)"),
 ("C02-m05","C02","container/support/singleton_component_registry.go",
  "\tr.singletonCurrentlyInCreation.Put(name)\n\tr.logger().Tracef(\"create instance of singleton '%s'\", name)",
  "\tr.logger().Tracef(\"create instance of singleton '%s'\", name)","creation no longer marks the name (nothing bounds the nesting of creations)"),
 ("C02-m06","C02","container/factory/factory.go",
  "\tsharedInstance, err := f.singletonComponentRegistry.GetSingleton(name, true)\n\tif err != nil {\n\t\treturn nil, err\n\t}\n\tif sharedInstance != nil {",
  "\tsharedInstance, err := f.singletonComponentRegistry.GetSingleton(name, true)\n\tif err != nil {\n\t\treturn nil, err\n\t}\n\tif sharedInstance != nil && !f.singletonComponentRegistry.IsSingletonCurrentlyInCreation(name) {","early references ignored for names in creation (a cycle re-enters creation)"),
 ("C02-m07","C02","container/processors/dependency_aware_post_processors.go",
  "\tfor _, prop := range properties {","\tfor i := 0; i < len(properties); {\n\t\tprop := properties[i]","loop over the injection points never advances"),
 # ---- fourth batch: skipped work / early exits (probing contracts that are sound but not complete) ----
 ("C05-m03","C05","container/factory/factory.go",
  "\t\t\tif dependencies := node.Injects; len(dependencies) != 0 {",
  "\t\t\tif dependencies := node.Injects; len(dependencies) > 1 {","single-candidate injection points never injected"),
 ("C05-m04","C05","container/factory/factory.go",
  "\t\t\t\terr = node.Inject(injects)\n\t\t\t\tif err != nil {\n\t\t\t\t\treturn err\n\t\t\t\t}",
  "\t\t\t\terr = node.Inject(injects)\n\t\t\t\tif err != nil {\n\t\t\t\t\treturn err\n\t\t\t\t}\n\t\t\t\tbreak","only the first injection point of a component is populated"),
 ("C05-m05","C05","container/factory/post_processor_registration_delegate.go",
  "\t\tif current == nil {\n\t\t\treturn nil, nil\n\t\t}\n\t}\n\treturn current, nil",
  "\t\tif current == nil {\n\t\t\treturn nil, nil\n\t\t}\n\t\tbreak\n\t}\n\treturn current, nil","only the first before-initialization processor runs"),
 ("C05-m06","C05","container/factory/post_processor_registration_delegate.go",
  "\t}\n\tif c, ok := component.(definition.InitializeComponent); ok {\n\t\tf.logger().Tracef(\"invoking init method",
  "\t} else if c, ok := component.(definition.InitializeComponent); ok {\n\t\tf.logger().Tracef(\"invoking init method","Init skipped for components that also have AfterPropertiesSet"),
 ("C14-m03","C14","app/app.go",
  "\t\tfor _, m := range s.CloserComponents {\n\t\t\tgo func(m definition.CloserComponent) {",
  "\t\tfor _, m := range s.CloserComponents[1:] {\n\t\t\tgo func(m definition.CloserComponent) {","first closer never closed"),
 ("C09-m06","C09","container/factory/factory.go",
  "\t\t}\n\t\tif p, ok := singleton.(container.DefinitionRegistryPostProcessor); ok {",
  "\t\t} else if p, ok := singleton.(container.DefinitionRegistryPostProcessor); ok {","a processor that is both a component and a definition-registry post-processor is registered as the former only"),
 ("C11-m05","C11","container/processors/default_tag_scan_definition_registry_post_processor.go",
  "\t\t\t\tproperties = append(properties, component_definition.NewProperty(field, d.NodeType, d.Tag, tagVal))\n\t\t\t\tcontinue",
  "\t\t\t\tproperties = append(properties, component_definition.NewProperty(field, d.NodeType, d.Tag, tagVal))\n\t\t\t\tbreak","scan stops at the first tagged field"),
 ("C15-m03","C15","configure/configure.go",
  "\t\tif len(config) != 0 {","\t\tif len(config) != 0 && i == 0 {","only the first loader's document reaches the binder"),
 ("C06-m03","C06","container/support/component_definition_registry.go",
  "\t\tif container.And(opts...)(m) {","\t\tif container.And(opts...)(m) && len(metas) == 0 {","GetMetas returns at most one definition"),
]
def main():
    env = dict(os.environ, GOFLAGS="-mod=mod", GOPROXY="off", GOSUMDB="off", GOTOOLCHAIN="local")
    out = "/verif/selftest/mutations"
    os.makedirs(out, exist_ok=True)
    index = []
    for mid, prop, path, old, new, what in M:
        tmp = tempfile.mkdtemp(prefix="mut_")
        try:
            subprocess.run(["rsync", "-a", "--exclude", ".git", "/repo/", tmp + "/"], check=True)
            subprocess.run(["git", "init", "-q"], cwd=tmp, check=True)
            subprocess.run("git add -A && git -c user.email=a@b -c user.name=x commit -qm base", shell=True, cwd=tmp, check=True)
            src = open(f"{tmp}/{path}").read()
            if src.count(old) != 1:
                print(mid, "SKIP: pattern occurs", src.count(old), "times in", path); continue
            open(f"{tmp}/{path}", "w").write(src.replace(old, new, 1))
            b = subprocess.run("go build ./... 2>&1 | tail -5", shell=True, cwd=tmp, env=env, capture_output=True, text=True)
            if b.stdout.strip():
                print(mid, "SKIP: does not build:", b.stdout.strip()[:300]); continue
            d = subprocess.run(["git", "diff"], cwd=tmp, capture_output=True, text=True).stdout
            open(f"{out}/{mid}.diff", "w").write(d)
            index.append({"id": mid, "property": prop, "file": path, "what": what})
            print(mid, "ok")
        finally:
            shutil.rmtree(tmp)
    json.dump(index, open(f"{out}/index.json", "w"), indent=1)
main()
