package main

import (
	"fmt"

	"golang.org/x/tools/go/ssa"
)

// The iteration rule: a callee whose contract says `iterates f over D, V` calls its function argument f once for every
// key k with D[k], passing (k, V[k]), in an unspecified order (sync.Map.Range and its typed wrapper, sequentially).
// At a call site the argument must be a closure literal under contract, the closure must always continue
// (obligation [iteration-continues]), and the caller supplies `iteration n invariant I` clauses over the pseudo
// variable _visited (the set of keys delivered so far):
//   [iterN:label:init]  I holds for the empty set;
//   [iterN:label:step]  from I(S), for an arbitrary undelivered key k of D, after one call of the closure on
//                       (k, V[k]) - by the closure's contract - I(S + {k}) holds;
//   afterwards the caller continues with I(D) (every key delivered), the closure's frame havocked.
func (vc *VC) applyIteration(st *State, ci *calleeInfo, call *ssa.CallCommon, instr ssa.Instruction, argVals []Val, site string) bool {
	c := ci.contract
	if c == nil || c.IterParam == "" {
		return false
	}
	// which argument is the callback
	idx := -1
	sig := ci.sig
	if ci.fn != nil {
		sig = ci.fn.Signature
	}
	for i := 0; i < sig.Params().Len(); i++ {
		if sig.Params().At(i).Name() == c.IterParam {
			idx = i
		}
	}
	off := 0
	if ci.fn != nil && ci.fn.Signature.Recv() != nil {
		off = 1
	}
	if idx < 0 || idx+off >= len(argVals) {
		vc.unsupported(instr, "iterates: no parameter %s", c.IterParam)
	}
	cb := argVals[idx+off]
	if cb.Closure == nil {
		vc.unsupported(instr, "iterates: the callback of %s must be a closure literal", ci.key)
	}
	cfn := cb.Closure.Fn.(*ssa.Function)
	cc := vc.lookupContract(funcKey(cfn))
	if cc == nil {
		vc.unsupported(instr, "missing-contract: iteration callback %s", funcKey(cfn))
	}
	ord := vc.iterOrdinal(instr)
	invs := vc.contract.Iterations[ord]
	var binds []Term
	for _, b := range cb.Closure.Bindings {
		binds = append(binds, vc.val(st, b).T)
	}
	penv := vc.calleeEnv(ci, st.heap, st.heap)
	for _, r := range c.Requires {
		g := vc.trClause(penv, r)
		vc.oblige(st, g, r.Label, "requires", site, vc.props(), r.Src, ci.key)
		st.assume = append(st.assume, g)
	}
	dom := penv.tr(c.IterDom)
	val := penv.tr(c.IterVal)
	parts := arraySorts(dom.S.Sort)
	if parts == nil {
		vc.unsupported(instr, "iterates: domain is not a set")
	}
	ks := parts[0]
	setSort := dom.S
	invEnv := func(s *State, visited Term) *Env {
		e := vc.fnEnvNames(s)
		e.vars["_visited"] = TV{T: visited, S: setSort}
		return e
	}
	// init
	empty := vc.d.constArray(ks, "Bool", "false")
	for _, inv := range invs {
		g := vc.trClause(invEnv(st, empty), inv)
		vc.oblige(st, g, fmt.Sprintf("iter%d:%s:init", ord, inv.Label), "invariant-init", site, clauseProps(inv, vc.props()), inv.Src, ci.key)
	}
	// arbitrary intermediate state: havoc what the closure may write
	mkCI := func(k, v Term) *calleeInfo {
		x := &calleeInfo{key: funcKey(cfn), contract: cc, sig: cfn.Signature, fn: cfn, closure: cb.Closure, closureBind: binds}
		x.args = []TV{{T: k, S: goSType(cfn.Params[0].Type())}}
		if len(cfn.Params) > 1 {
			x.args = append(x.args, TV{T: v, S: goSType(cfn.Params[1].Type())})
		}
		return x
	}
	k0 := vc.d.freshConst("iter_k", ks)
	v0 := app("select", val.T, k0)
	pre := st.heap.clone()
	vc.havocAssigns(st, vc.calleeEnv(mkCI(k0, v0), st.heap, st.heap), cc, pre)
	visited := vc.d.freshConst("visited", setSort.Sort)
	st.assume = append(st.assume, fmt.Sprintf("(forall ((kk %s)) (! (=> (select %s kk) (select %s kk)) :pattern ((select %s kk))))", ks, visited, dom.T, visited))
	for _, inv := range invs {
		st.assume = append(st.assume, vc.trClause(invEnv(st, visited), inv))
	}
	// one more step, on a side copy
	sub := st.clone()
	sub.assume = append([]Term{}, st.assume...)
	sub.assume = append(sub.assume, app("select", dom.T, k0), not(app("select", visited, k0)))
	vc.curState = sub
	res := vc.applyContract(sub, mkCI(k0, v0), instr, site)
	if res.T != "" && sortOf(res.Typ) == "Bool" {
		vc.oblige(sub, res.T, fmt.Sprintf("iter%d:iteration-continues", ord), "iteration", site, vc.props(), "the callback returns true (the rule covers iterations that visit every entry)", funcKey(cfn))
	}
	// the callback must leave the collection alone (the rule iterates over the domain as it was at the call)
	{
		qenv := vc.calleeEnv(ci, sub.heap, sub.heap)
		dom2 := qenv.tr(c.IterDom)
		val2 := qenv.tr(c.IterVal)
		vc.oblige(sub, and(eq(dom2.T, dom.T), eq(val2.T, val.T)), fmt.Sprintf("iter%d:collection-unchanged-by-callback", ord), "iteration", site, vc.props(), "the callback does not modify the collection it is iterating", funcKey(cfn))
	}
	visited2 := app("store", visited, k0, "true")
	for _, inv := range invs {
		g := vc.trClause(invEnv(sub, visited2), inv)
		vc.oblige(sub, g, fmt.Sprintf("iter%d:%s:step", ord, inv.Label), "invariant-step", site, clauseProps(inv, vc.props()), inv.Src, funcKey(cfn))
	}
	vc.curState = st
	// exit: every key has been delivered
	st.assume = append(st.assume, eq(visited, dom.T))
	return true
}

// iterOrdinal: position of this call among the calls of iterating callees in the function, in source order.
func (vc *VC) iterOrdinal(instr ssa.Instruction) int {
	n := 0
	type item struct {
		ins ssa.Instruction
	}
	var items []ssa.Instruction
	for _, b := range vc.fn.Blocks {
		for _, ins := range b.Instrs {
			if cl, ok := ins.(ssa.CallInstruction); ok {
				cc := cl.Common()
				if f, ok := cc.Value.(*ssa.Function); ok {
					if c := vc.lookupContract(funcKey(f)); c != nil && c.IterParam != "" {
						items = append(items, ins)
					}
				}
			}
		}
	}
	// source order
	for i := 0; i < len(items); i++ {
		for j := i + 1; j < len(items); j++ {
			if items[j].Pos() < items[i].Pos() {
				items[i], items[j] = items[j], items[i]
			}
		}
	}
	for i, it := range items {
		if it == instr {
			n = i + 1
		}
	}
	return n
}
