#!/usr/bin/env python3
"""Regenerates /verif/MANIFEST.json from the table below (kept next to the machinery so the two cannot drift)."""
import json, subprocess, sys

GOVC = "/verif/bin/govc"
TRUST = ("Trusted base: the VC generator govc itself (go/ssa symbolic execution, heap/slice/interface encoding, contract "
         "language), the SMT solvers, the trusted contracts under /verif/contracts/trusted and the interface-level contracts "
         "assumed of user callbacks (A-* assumptions in DESIGN section 3; listed per run in the evidence file).")

# property -> (level category, text, design_ref, technique, note)
CLAIMED = {
 "C04": ("proof",
         "Every method of the singleton cache is verified against an interface-level contract over the abstract view "
         "(L1/L2/L3/in-creation, ghost run counters) for an arbitrary registry state, name and callback behaviour; the property's "
         "sentences are the labelled ensures clauses ([early-stable], [promote-once], [published-wins], [publishes], [ic-restored], "
         "[failed-create-leaves-nothing], rely R1/R4). Unbounded: no bound on names, nesting depth or history length, because callbacks "
         "are replaced by their contract (rely/guarantee).",
         "DESIGN.md section 5 C04",
         "contract-based deductive verification (govc WP over go/ssa, z3/cvc5)",
         "sync2.Map and list.Set methods are used through trusted sequential contracts in this revision; creating callbacks are assumed "
         "to satisfy the SingletonFactory.GetComponent contract (proved for the in-repo closures under C01-C03 when claimed). " + TRUST),

 "C12": ("proof",
         "SortOrderedComponents (generic body, T opaque) is verified for an arbitrary slice: the result is a permutation of the input "
         "(ghost slot tags: [same-length], [from-input], [exactly-once]), classes in order, Order() non-decreasing within the two ordered "
         "classes, unordered participants keep input order, input untouched; the comparator is verified against its defining equation and "
         "the strict-weak-order side conditions of the sort are discharged at both call sites. Consumers: App.callRunners invokes exactly the "
         "sorted sequence (loop invariant over the ghost invocation trace).",
         "DESIGN.md section 5 C12",
         "contract-based deductive verification (govc WP over go/ssa, z3/cvc5)",
         "sort2.Slice is used through a trusted contract (A-SORT); Order() is assumed pure (A-CALLBACK); the pigeonhole step (injective map "
         "[0,n)->[0,n) is a bijection) is mathematics outside SMT; parametricity of the generic body in T justifies ghost slot tags. " + TRUST),
 "C13": ("proof",
         "App.run / initConfiguration / initFactory / refresh / callRunners verified against a ghost start-up trace: the Run callback's "
         "precondition (Refreshed and not Failed) is an obligation at its only call site, callRunners appends exactly the sorted runner "
         "sequence to the trace and stops at the first error, run reports an error iff a phase or runner failed.",
         "DESIGN.md section 5 C13",
         "contract-based deductive verification (govc WP over go/ssa, z3/cvc5)",
         "Configure.Initialize, Factory.PrepareComponents and Factory.Refresh are interface-level contracts (assumed here; Refresh setting "
         "Refreshed only when every eager component is initialised is C05's obligation); non-nil injected runners is a named site assumption. " + TRUST),

 "C15": ("proof",
         "The loader list is an abstract sequence (model fields NLoaders/LoaderAt bound to the representation); AddLoaders appends and "
         "keeps every earlier entry, SetLoaders replaces; each source-adding option closure (SetConfig, AddConfigLoader) is verified to "
         "append; Default installs exactly the command-line loader and a binder; loadConfigure invokes the loaders in the sequence of the "
         "ordering contract (files first as class 0/Order 0, the others in the order they were added), feeds every non-empty output "
         "unchanged to Binder.SetConfig in that same order, and stops at the first error (ghost load/feed trace, loop invariant); the built-in "
         "ViperBinder.SetConfig is proved to merge every document on top of the earlier ones (never to replace them) against a trusted "
         "viper specification, and loadConfigure states what the binder holds afterwards ([binder-merged-in-feed-order]).",
         "DESIGN.md section 5 C15",
         "contract-based deductive verification (govc WP over go/ssa, z3/cvc5)",
         "That viper.MergeConfig adds a document on top (and ReadConfig replaces) is the trusted model of the library (60_viper.spec); that merging in order yields a deep merge where the last one wins and single-source keys stay "
         "visible is a property of the third-party library (A-LIB), assumed, not proved; ArgsLoader's YAML rendering likewise. "
         "Configure is assumed wired with a non-nil binder and non-nil loaders (established by Default; not re-proved through options). " + TRUST),

 "C14": ("proof",
         "App.Close is verified with a fork/join rule: the goroutine body (closure) is verified on all paths against its thread contract "
         "(closes exactly its own closer once, calls Done exactly once, also on the error path); the loop invariant counts forks and fixes "
         "each thread's argument to the closer at its position; wg.Wait carries the obligation Added == number of forked threads and only "
         "after it may the threads' postconditions be assumed, so [every-closer-once] and [nothing-else-closed] are provable only if Close "
         "waits for all of them. Holds for every number of closers and every schedule (threads are composed by contract, not by interleaving).",
         "DESIGN.md section 5 C14 and section 2.7",
         "contract-based deductive verification with a fork/join rule (govc WP over go/ssa, z3/cvc5)",
         "sync.WaitGroup by its trusted contract (A-WG, Go memory model); a closer that never returns makes Wait block (the statement's 'waits "
         "for all' still holds); panics inside user Close methods are outside the contract; non-nil injected closers is a precondition. " + TRUST),

 "C08": ("proof",
         "filterDependencies is verified for an arbitrary candidate list (any order, nil entries, duplicates) and arbitrary qualifier / "
         "Primary / naming attributes: only non-nil candidates whose qualifier is requested survive ([qualifier-only], for single values "
         "and every slice element), slices keep all of them once in input order, a single-valued point gets exactly one, a unique Primary "
         "wins, otherwise a unique unnamed one, ties stay in the best class (loop invariant of the preference scan); fas.Filter (generic) is "
         "verified as sound, order-preserving and complete. PostProcessProperties is verified to narrow EVERY component property "
         "independently ([every-component-property-narrowed], [narrowing-frame]) and to report a required point without candidates.",
         "DESIGN.md section 5 C08",
         "contract-based deductive verification (govc WP over go/ssa, z3/cvc5)",
         "TagArg.Find/Has are used through abstract trusted contracts (ArgIn/ArgHas1; their bodies are C19's subject); "
         "reflectx.IsTypeImplement is trusted (A-REFLECT); Qualifier() is assumed pure (A-CALLBACK). " + TRUST),

 "C01": ("other",
         "Chain of contracts, each proved for arbitrary inputs: doGetComponent returns exactly what the registry currently answers and "
         "creates nothing on a hit; populateComponent resolves each dependency through that lookup, in order (loop invariant "
         "[injects-are-lookups], stable under nested creations by the rely R1/R4); Inject writes the resolved Meta's own Value into the "
         "field (single: [single-sets-first]; slice: [slice-sets-all]) and records exactly the non-self candidates; doCreateComponent "
         "publishes the early reference when initialization did not wrap ([unwrapped-publishes-early]); GetComponentByName returns the "
         "current version's Raw. One clause ([no-stale-in-creation-holder]) is an open known finding (F-C03), so the level is 'other', not proof.",
         "DESIGN.md section 5 C01 and factory layer",
         "contract-based deductive verification (govc WP over go/ssa, z3/cvc5)",
         "Stage A: each link is proved; the composition 'every holder sees the published instance' additionally relies on assumptions listed "
         "in the evidence (post-processor pipeline leaves component properties narrowed and well-formed, substituted components stay assignable, "
         "factory wiring stable between closure creation and callback). NewMeta/GetProperties are trusted (reflection scan, C11). " + TRUST),
 "C02": ("proof",
         "No creation re-enters a name on the stack: the registry's precondition [not-creating] is an obligation at doGetComponent's only "
         "call of GetSingletonOrCreateByFactory, discharged from the invariant J (every name in creation is answerable) + the lookup "
         "contract; a name in creation is answered by its early reference without creation ([in-creation-gets-early]); Inject never wires a "
         "point to its own holder ([never-self]), reports self-only required points ([self-only]) and leaves optional ones untouched; all loops "
         "are range loops. The creation callback closure is checked to refine the interface-level callback contract (behavioural subtyping).",
         "DESIGN.md section 5 C02",
         "contract-based deductive verification (govc WP over go/ssa, z3/cvc5)",
         "Termination is discharged (DESIGN 11.5d): recursion measures on the two recursive groups of the call graph (creation cycle: "
         "defined names not yet in creation; embedded-struct scan: by-value nesting depth of the type), loop variants, and 'every callee "
         "terminates' closed from App.Run downwards (130 contracts) - relative to three axioms about counting a finite set (A-FINSET), the "
         "RDepth axioms, and the assumption that library code and user callbacks return (A-LIB-TERMINATES, A-CALLBACK; named per run). 'Succeeds "
         "when no post-processor substitutes' is covered only as: the stale-version error is unreachable when nothing wraps. " + TRUST),
 "C03": ("other",
         "doCreateComponent is verified clause by clause: wrapping is detected and a proxy Meta with the same name is exposed "
         "([wrap-detected]); if the final version differs from the early reference, every recorded holder of the early/original version is "
         "still in creation, otherwise start-up fails ([no-stale-finished-holder], with the loop invariant of the dependents scan); Inject "
         "records the holder on the injected version ([records-holder]); getEarlyBeanReference wraps once. The remaining case - a holder that "
         "is itself still in creation keeps the superseded version - is the open known finding F-C03 ([no-stale-in-creation-holder]).",
         "DESIGN.md section 5 C03, section 6 F-C03",
         "contract-based deductive verification (govc WP over go/ssa, z3/cvc5)",
         "Known finding F-C03 is reported as KNOWN-FINDING and keeps the level at 'other'. Dependents' entries non-nil is a named site assumption. " + TRUST),
 "C05": ("proof",
         "Ghost typestate per component name; the obligations the container owes user callbacks are their preconditions: before-init "
         "processors only on a populated component, AfterPropertiesSet only after all of them, Init after AfterPropertiesSet when present, "
         "after-init processors only after the init methods; each processor exactly once in slice order (loop invariants over the ghost "
         "traces); InitializeComponent reaches 'ready' on success; doCreateComponent populates strictly before initializing; Refresh creates "
         "exactly the non-lazy definitions in ascending name order ([eager-all-created], [only-non-lazy-definitions]); population is complete: "
         "every willing processor runs its properties stage ([every-willing-processor-populates]) and every injection point with candidates is "
         "injected ([every-point-populated]).",
         "DESIGN.md section 5 C05",
         "contract-based deductive verification (govc WP over go/ssa, z3/cvc5)",
         "'Exactly once per start' holds per creation attempt (a failed lazy creation that is retried re-runs init methods); 'dependencies "
         "first' is proved as [published-or-on-stack] (a dependency that is not published is on the creation stack); what user Init methods "
         "observe inside dependencies is not covered. " + TRUST),
 "C10": ("proof",
         "Functional determinism clauses: Refresh creates in strictly ascending name order whatever order GetMetas enumerates (its contract "
         "leaves the order unconstrained), proved via the sort contract; filterDependencies' result is a function of the candidate SET "
         "except within genuinely tied candidates ([unique-primary-wins], [unique-unnamed-wins], [tie-stays-in-best-class]) and never selects "
         "the holder itself ([self-never-beats-other], the repaired F-C10); the singleton registry never lets the second of two different components "
         "under one name return normally ([duplicate-name-rejected], relative to A-LOG-PANIC: the installed Logger's Panicf does not return - proved of the built-in logger since the fix F-C10b, assumed of a user-supplied one), so which one is "
         "kept cannot depend on registration order.",
         "DESIGN.md section 5 C10",
         "contract-based deductive verification (govc WP over go/ssa, z3/cvc5)",
         "Commutativity of two different post-processors with equal class and Order, the order of elements inside an injected slice, and the "
         "goroutine schedules of the scanning phase (C20) are not covered. " + TRUST),

 "C19": ("proof",
         "TagArg.Parse is verified for an arbitrary tag string and an arbitrary map: the value is the first top-level segment; every later "
         "segment with a non-empty name yields an entry under the first-letter-normalised name; for each name the LAST segment wins and its "
         "values are exactly the space-separated items (flag segments get one empty value); no other key changes (loop invariant with "
         "last-wins); Set/Add/Find/Has all index at the same normalised name, Has is the intersection test, IsRequired is false only for an "
         "explicit 'false' value; NewProperty allocates the map before parsing. Totality: every slice/index/map-write in these functions and "
         "in the prop-shorthand handler carries a discharged no-panic obligation for arbitrary strings.",
         "DESIGN.md section 5 C19",
         "contract-based deductive verification (govc WP over go/ssa, z3/cvc5) + one bounded stand-in (labelled bounded)",
         "strings2.Split / IndexSkipBlocks are third-party: trusted contracts (at least one segment; index in range), backed by a BOUNDED "
         "stand-in that runs the real functions against a reference splitter on all strings up to length 5 (quick) / 7 (thorough) over a "
         "10-letter alphabet - 'bracketed groups are never split' is checked there for balanced inputs only (the library misbehaves on "
         "unbalanced ones) and is not counted as proved; strings.Index/ToUpper by A-STR; the text rendered by fmt.Sprintf in the prop "
         "shorthand is not modelled. " + TRUST),

 "C09": ("proof",
         "A start-up failure anywhere is tracked by the ghost flag Failed (raised exactly when a callback or built-in check returns an "
         "error) and every function between the failing place and Run carries the obligation [failure-surfaces]: result == nil implies "
         "Failed unchanged. Proved for: the built-in property processors (required value / required configuration / required component "
         "missing => error, [required-missing-errors], [required-empty-errors]; optional ones are skipped and their field's memory is "
         "untouched, [optional-empty-value-skipped], [optional-missing-config-skipped], frame of Inject), which are checked to refine the "
         "interface-level post-processor contract (implements + ghost at return); ResolveAfterInstantiation, populateComponent, "
         "doCreateComponent, doGetComponent, Refresh (refines (Factory).Refresh), invokeInitMethods / before / after initialization "
         "(AfterPropertiesSet, Init, post-processor callbacks), the parallel definition scan (lock invariant: a recorded scan failure is on "
         "the error list), configuration loading, App.refresh / run / Run: [run-reports-failure] implies(Failed, result != nil) and "
         "[no-runner-unless-refreshed]; callRunners requires Refreshed && !Failed. No-panic obligations are discharged on all these paths.",
         "DESIGN.md section 5 C09",
         "contract-based deductive verification (govc WP over go/ssa, z3/cvc5)",
         "Hang-freedom is not covered (termination of the creation recursion is stage B). defaultFactory.PrepareComponents and "
         "InvokeBeanFactoryPostProcessors are proved against the interface-level phase contract (their own wiring preconditions are A-WIRING). "
         "Property.Unmarshall is trusted (third-party decoding; it writes only its own field). Own preconditions of the built-in processors "
         "are assumed at dynamic dispatch (A-WIRING, listed per function in the evidence). logger.Fatalf is assumed not to return. " + TRUST),
 "C20": ("other",
         "Race freedom of the two concurrent phases by the fork/join rule: every go statement needs a thread contract; at the join the "
         "obligation [thread-frames-disjoint] demands that no two live threads write the same real location; shared locations must be "
         "declared guarded by a mutex, and then every read and write of them in the thread body carries a lockset obligation (mutex held), "
         "Lock/Unlock carry non-reentrancy / held preconditions, the lock invariant is re-established at Unlock and the mutex is released "
         "at thread end. Scan phase: one thread per delivered map key (names distinct: loop invariant over the visited set), the error list "
         "is guarded (after the repair of F-C20 - before it [thread-frames-disjoint:errs] failed), Add == number of forks. Close phase: one "
         "thread per closer, per-thread slots, Done exactly once on every path. Second sentence: sync2.Map Load / Store / Delete / "
         "LoadOrStore / LoadOrStoreFn and ConcurrentSets Put / Exists / Remove are verified `linearizable`: under arbitrary interference "
         "(havoc of the shared abstract state before every atomic step), with the postcondition relative to the state at the last atomic "
         "step and every earlier step a pure read - so every call takes effect atomically at that step with the result its sequential "
         "contract prescribes (LoadOrStoreFn failed this before the repair of F-C20b). Level 'other' because histories with Range are not "
         "decided (not an atomic snapshot) and the uninstantiated generic set has no body to verify.",
         "DESIGN.md section 5 C20",
         "contract-based deductive verification (govc WP over go/ssa, z3/cvc5): fork/join + lockset rule",
         "What a scanner callback writes is abstracted as the region ScanRegion[name] (A-CALLBACK: a scan of component X stays inside X's "
         "definition and the synchronised registry); the built-in tag scanner is not yet proved against that region. sync.Map and "
         "sync.WaitGroup / sync.Mutex semantics are trusted (A-WG, A-MUTEX, A-SYNCMAP). syslog's concurrent use is not modelled. " + TRUST),
 "C16": ("proof",
         "Placeholder resolution is verified function by function: el.ReplaceAllContent terminates (loop variant maxReplaceRounds - round, "
         "obligation [loop1:variant-decreases]; before the repair of F-C16 the obligation [loop1:terminates] failed - a: \"${a}\" spun "
         "forever), returns a text without placeholder on success ([no-placeholder-left]) or an error with empty text, leaves text without "
         "placeholder untouched, and never slices out of range (content(): marker lengths fit every match). It refines the interface-level "
         "Helper contract (model fields Pattern / OK bound to the implementation). The placeholder callback of the config-quote "
         "processor is verified against the statement: key = text before the first ':', a configured value counts as present unless "
         "nil / empty map / empty list ([configured-value-wins]), otherwise the default is parsed and rendered ([default-otherwise]), "
         "absent without default gives the empty text and no error ([absent-without-default-is-empty]), the lookup is recorded; the "
         "processor leaves TagVal without placeholder for every property whose tag had one and touches no other TagVal.",
         "DESIGN.md section 5 C16",
         "contract-based deductive verification (govc WP over go/ssa, z3/cvc5)",
         "regexp (leftmost match RFirst, minimal match length of the two compiled patterns), strings.Replace / SplitN and "
         "strconv2.ParseAny / FormatAny are library functions used through trusted contracts (A-LIB, A-STR). That the iterated replacement "
         "equals 'the tag written with the replacement text' is stated per round by the library contract of strings.Replace, not as a closed "
         "form. The callback handed to ReplaceAllContent is assumed to stay inside its parameter contract (frame only). " + TRUST),
 "C18": ("proof",
         "Stage order from the real declarations: every built-in processor's Order() is verified to return its constant and the marker "
         "interfaces are read from go/types; three lemmas are then proved - placeholder substitution < expression evaluation < binding "
         "(value / prefix) inside the priority class, validation in the plain ordered class - which together with the C12 contract of "
         "SortOrderedComponents (classes in order, order non-decreasing) gives the stage order. The expression processor evaluates the "
         "text produced by the placeholder stage (site assertion [evaluates-substituted-text]: the input of the resolution is TagVal), "
         "replaces each #{...} by the rendered library result ([expression-result]) and leaves no expression behind; the validation "
         "processor returns an error exactly when the library reports a violation for a checked property "
         "([fails-exactly-on-violation], a biconditional with loop invariant).",
         "DESIGN.md section 5 C18",
         "contract-based deductive verification (govc WP over go/ssa, z3/cvc5)",
         "expr.Compile / expr.Run and validator.Struct / Var are third-party: their verdicts are named by spec functions (A-LIB), the "
         "constraint and expression semantics themselves are not verified. InvokeBeanFactoryPostProcessors is proved to store the sorted list "
         "([classes-in-order], [order-nondecreasing], [lazy-processors-keep-their-sorted-slot], [placeholders-before-expressions-before-validation]) and "
         "ResolveAfterInstantiation to apply the properties stage in list order ([properties-stage-in-list-order]); non-lazy processors may be "
         "replaced by the instance the factory returns for their name (then only the slot is known). " + TRUST),
 "C11": ("proof",
         "Field scanning and tag scanning are verified on the real reflective code against an axiomatised reflect (A-REFLECT): "
         "ForEachFieldV2 calls the acceptor for field 0..n-1 of the (dereferenced) struct in order with the field's descriptor and value, "
         "terminates (variant NumField - i) and does nothing for non-structs; the scanFields closure is checked at its creation to refine "
         "the acceptor contract (functype callback refinement) and decides exactly as the property says: an anonymous, untagged, by-value "
         "struct is entered by recursion with a holder chained to the enclosing one, any other field is recorded exactly when it is "
         "settable, with its own descriptor / value / holder ([settable-leaf-recorded], [unsettable-leaf-skipped]) - the record does not "
         "depend on the nesting depth; FieldsInv (every recorded field is settable, not an embedded struct, typed as its descriptor) is an "
         "invariant of the whole recursion. The tag scanner creates one Property per field carrying its tag, in field order, none for other "
         "fields unless a handler claims them ([property-per-tagged-field], [only-claimed-fields], [in-field-order]), applies the default "
         "required argument, stores them in the Meta's groups (SetProperties: all stored, earlier ones kept) and writes no component memory. "
         "Frame: Inject, SetValue, the logger processor and the value / prefix processors write only the location behind the Value of a "
         "property they process; the census obligation [census:reflect-writers] makes every call site of reflect.Value.Set* / "
         "reflect.Copy / Append in non-test code sit in a function under contract or in the explicit off-path list.",
         "DESIGN.md section 5 C11",
         "contract-based deductive verification (govc WP over go/ssa, z3/cvc5) + structural census of reflective writers",
         "Completeness of the recursion as a closed form (every settable leaf at every depth is recorded exactly once) is proved per level "
         "(per acceptor call) but not yet as one statement over the whole struct tree; termination of the recursion relies on Go's ban on "
         "recursive by-value struct types (not an obligation). reflect itself is axiomatised (A-REFLECT); mapstructure decoding writes "
         "through the fresh value handed to it (A-LIB, parameter contract of SetValue's setter); NewMeta is still a trusted contract at "
         "its call sites. The scanner's write set is related to the abstract region of C20 only by assumption. " + TRUST),
 "C06": ("proof",
         "Candidate collection is verified per processor for an arbitrary property list and definition registry: for a nameless wire point of "
         "pointer type exactly the definitions whose value has that type are appended, for an interface type exactly the implementers "
         "([by-type-sound], [by-type-complete] with ghost position witnesses), for the func tag only definitions that expose the method "
         "([func-candidates-sound]); nothing else is touched ([others-untouched], [earlier-candidates-kept]); every appended candidate is "
         "assignable to the target type ([candidates-assignable], via the trusted reflect axioms); the option predicates Type / "
         "InterfaceType / FuncName / FuncNameAndResult / Or / And are verified against their defining equations; Inject sets every "
         "non-self candidate exactly once for slices and never the holder ([slice-sets-all], [never-self], [records-injects]); "
         "the reflect.Value.Call arity obligation in FuncNameAndResult is discharged after the repair of F-C06.",
         "DESIGN.md section 5 C06",
         "contract-based deductive verification (govc WP over go/ssa, z3/cvc5)",
         "DefinitionRegistry.GetMetas is used through its interface-level contract (sound, complete, duplicate-free, any order); the built-in "
         "registry's implementation is proved against it with the iteration rule (sync2.Map.Range is the trusted iterator). package reflect is axiomatised (A-REFLECT). With substituting "
         "post-processors the injected version's type is assumed assignable (named site assumption). " + TRUST),
 "C07": ("proof",
         "By-name branch: the candidate appended for a named single-valued point is exactly the definition registered under that name if it "
         "is assignable to the field, otherwise nil ([by-name-candidate]), however many definitions share its type; a nil/absent candidate "
         "makes a required point fail and leaves an optional one untouched (C08 [every-component-property-narrowed], Inject "
         "[required-empty-errors]); names: GetComponentName is the custom name when non-empty, else the type id ([name-of-component]); "
         "RegisterSingleton never replaces an existing entry ([no-two-under-one-name]); GetMetaByName returns the entry or nil; the "
         "reflect.Value.Set assignability precondition on the by-name path is discharged after the repair of F-C07.",
         "DESIGN.md section 5 C07",
         "contract-based deductive verification (govc WP over go/ssa, z3/cvc5)",
         "reflectx.Id (type id) and reflect are trusted (A-REFLECT); sync2.Map by trusted sequential contracts; that definition keys and "
         "singleton keys agree goes through GetMetaOrRegister, which is not yet under contract. " + TRUST),
}

NOT_APPLICABLE = {
 "C17": "Extensional identity of a pipeline of third-party string/float conversions (yaml/viper, strconv2.FormatAny/ParseAny, mapstructure); "
        "no contract on /repo functions can express or decide it with the installed solvers (DESIGN section 5 C17).",
}

PENDING_REASON = "not claimed in this revision: contracts for the functions this property depends on are not yet discharged (DESIGN section 5 has the plan); no check is registered rather than registering one that proves nothing"

def main():
    props = [json.loads(l)["id"] for l in open("/verif/properties.jsonl")]
    repo_commits = subprocess.run(["git", "-C", "/repo", "log", "--format=%H %s"], capture_output=True, text=True).stdout.strip().split("\n")
    hook_commits = [l.split()[0] for l in repo_commits if l.split(" ", 1)[1].startswith("verif:")]
    checks, na = [], []
    for p in props:
        if p in CLAIMED:
            cat, text, ref, tech, note = CLAIMED[p]
            checks.append({
                "property_id": p,
                "quick_cmd": f"{GOVC} check -property {p} -tier quick",
                "thorough_cmd": f"{GOVC} check -property {p} -tier thorough",
                "evidence_file": f"/verif/evidence/{p}.json",
                "engine": "govc",
                "level_claimed": {"category": cat, "text": text, "design_ref": ref},
                "level_note": note,
                "technique": tech,
            })
        else:
            na.append({"property_id": p, "reason": NOT_APPLICABLE.get(p, PENDING_REASON)})
    m = {
        "version": 1,
        "setup_cmd": "cd /verif/govc && GOFLAGS=-mod=vendor GOPROXY=off GOSUMDB=off GOTOOLCHAIN=local go build -o /verif/bin/govc . && cd /verif/bounded/strings2 && GOFLAGS=-mod=mod GOPROXY=off GOSUMDB=off GOTOOLCHAIN=local go build -o /verif/bin/bounded_strings2 .",
        "hooks": {
            "guard": "verif",
            "enable": "-tags=verif (comment-only contract files */zz_contracts_verif.go; govc loads /repo with this tag)",
            "baseline_off_cmd": "cd /repo && GOFLAGS=-mod=mod GOPROXY=off GOSUMDB=off go test -vet=off -count=1 ./...",
            "source_commits": hook_commits,
            "add_only": True,
        },
        "engines": [{"name": "govc", "path": "/verif/govc", "serves_properties": sorted(CLAIMED),
                     "kind_free_text": "own verification-condition generator for Go: contracts in //@ comments, forward symbolic execution of go/ssa with loop invariants and callee contracts, obligations discharged by z3-new/cvc5/z3"}],
        "checks": checks,
        "not_applicable": na,
        "notes": "All checks rebuild their obligations from /repo's working tree on every run (go/packages + go/ssa with -tags=verif). Known findings: /verif/known_findings.jsonl.",
    }
    json.dump(m, open("/verif/MANIFEST.json", "w"), indent=1)
    print("claimed:", sorted(CLAIMED), "not claimed:", len(na))

main()
