#!/usr/bin/env python3
"""run_seeds.py [seed-id ...]: the must-fail corpus. For every kept seeded change (all if none is named): apply its patch to
/repo, run the quick check of its property (plus extra properties given in meta['also_check']), revert /repo, and record
whether a VIOLATION was reported and by which obligations. Also runs each check once on the unchanged tree first is NOT done
here (that is the regression run). Writes /verif/seeded/SUMMARY.md and SUMMARY.json. /repo must be clean."""
import json, os, subprocess, sys, glob
env = dict(os.environ, GOFLAGS="-mod=mod", GOPROXY="off", GOSUMDB="off", GOTOOLCHAIN="local")
def sh(cmd, cwd="/repo", timeout=1800):
    p = subprocess.run(cmd, shell=True, cwd=cwd, env=env, capture_output=True, text=True, timeout=timeout)
    return p.returncode, p.stdout + p.stderr
assert sh("git status --porcelain")[1].strip() == "", "/repo not clean"
ids = sys.argv[1:] or sorted(os.path.basename(os.path.dirname(p)) for p in glob.glob("/verif/seeded/*/patch.diff"))
rows = []
for sid in ids:
    d = f"/verif/seeded/{sid}"
    meta = json.load(open(f"{d}/meta.json"))
    props = meta.get("property")
    if isinstance(props, str): props = [props]
    props = list(props or [sid.split("-")[0]]) + list(meta.get("also_check", []))
    rc, o = sh(f"git apply --check {d}/patch.diff")
    if rc != 0:
        rows.append({"seed": sid, "applies": False, "note": "patch no longer applies to the current tree: " + o.strip()[:200]})
        continue
    sh(f"git apply {d}/patch.diff")
    try:
        brc, bo = sh("go build ./... 2>&1 | tail -3")
        res = {"seed": sid, "applies": True, "builds": brc == 0 and "error" not in bo.lower(), "checks": {}}
        for p in dict.fromkeys(props):
            rc, o = sh(f"/verif/bin/govc check -property {p} -tier quick", cwd="/verif")
            lines = [l.strip() for l in o.splitlines() if l.startswith("VIOLATION") or l.startswith("  obligation") or l.startswith("  UNBOUND")]
            res["checks"][p] = {"exit": rc, "violation": any(l.startswith("VIOLATION") for l in lines),
                                "by": [l[:220] for l in lines if not l.startswith("VIOLATION")][:4]}
        res["detected"] = any(c["violation"] for c in res["checks"].values())
        rows.append(res)
    finally:
        sh("git checkout -- . && git clean -fdq -- . ':!*zz_contracts_verif.go'")
    print(sid, "DETECTED" if rows[-1].get("detected") else "MISSED", flush=True)
assert sh("git status --porcelain")[1].strip() == "", "/repo not clean after run"
if sys.argv[1:] and os.path.exists("/verif/seeded/SUMMARY.json"):
    prev = json.load(open("/verif/seeded/SUMMARY.json"))
    new = {r["seed"]: r for r in rows}
    rows = [new.pop(r["seed"], r) for r in prev] + list(new.values())
    rows.sort(key=lambda r: r["seed"])
json.dump(rows, open("/verif/seeded/SUMMARY.json", "w"), indent=1)
with open("/verif/seeded/SUMMARY.md", "w") as f:
    f.write("# Seeded changes against the current checks (written by tools/run_seeds.py)\n\n| seed | detected | first reporting obligation |\n|---|---|---|\n")
    for r in rows:
        if not r.get("applies"):
            f.write(f"| {r['seed']} | n/a | {r['note']} |\n"); continue
        by = next((b for c in r["checks"].values() for b in c["by"]), "")
        f.write(f"| {r['seed']} | {'yes' if r['detected'] else '**NO**'} | {by.replace('|','/')} |\n")
print("missed:", [r["seed"] for r in rows if r.get("applies") and not r.get("detected")])
