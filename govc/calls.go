package main

import (
	"go/parser"
	"fmt"
	"go/ast"
	"go/token"
	"go/types"
	"sort"
	"strings"

	"golang.org/x/tools/go/ssa"
)

func (vc *VC) execCall(st *State, x *ssa.Call) Val {
	return vc.execCallCommon(st, &x.Call, x)
}

// calleeInfo describes what is being called and under which contract.
type calleeInfo struct {
	key      string
	contract *Contract
	sig      *types.Signature
	recvName string
	recv     *TV
	args     []TV
	tparams  map[string]types.Type
	pureApp  Term // for pure function values: the application term
	fn       *ssa.Function
	closure  *ssa.MakeClosure
	closureBind []Term
}

func (vc *VC) lookupContract(key string) *Contract {
	c := vc.specs.Contracts[key]
	if c == nil {
		return nil
	}
	return c
}

func (vc *VC) isEffectFree(key string) bool {
	for i, re := range vc.specs.TrustedPure {
		if re.MatchString(key) {
			vc.usedTrusted["effect-free "+vc.specs.TrustedPureSrc[i]] = true
			return true
		}
	}
	return false
}

func (vc *VC) tvOf(v Val, t types.Type) TV {
	return TV{T: v.T, S: goSType(t)}
}

func (vc *VC) execCallCommon(st *State, call *ssa.CallCommon, instr ssa.Instruction) Val {
	site := vc.siteOf(instr)
	resTuple := call.Signature().Results()
	// ---- builtins ----
	if b, ok := call.Value.(*ssa.Builtin); ok {
		st.callCount[b.Name()]++
		vc.siteHooks(st, b.Name(), instr, true)
		return vc.execBuiltin(st, b, call, instr)
	}
	var ci calleeInfo
	ci.sig = call.Signature()
	var argVals []Val
	for _, a := range call.Args {
		argVals = append(argVals, vc.val(st, a))
	}
	if call.IsInvoke() {
		recv := vc.val(st, call.Value)
		ci.key = ifaceMethodKey(call.Method)
		ci.contract = vc.lookupContract(ci.key)
		// receivers of effect-free interface methods (loggers, A-LOG) are not checked for nil, with or without a contract
		if !vc.isEffectFree(ci.key) {
			vc.safety(st, not(eq(recv.T, "iface_nil")), "nil-interface-call@"+call.Method.Name(), instr)
		}
		rt := vc.tvOf(recv, call.Value.Type())
		ci.recv = &rt
		ci.recvName = "self"
		if ci.contract != nil {
			ci.recvName = ci.contract.RecvName
		}
		for i, a := range argVals {
			ci.args = append(ci.args, vc.tvOf(a, call.Args[i].Type()))
		}
	} else {
		var fn *ssa.Function
		v := vc.val(st, call.Value)
		switch {
		case v.Fn != nil:
			fn = v.Fn
		case v.Closure != nil:
			fn = v.Closure.Fn.(*ssa.Function)
			ci.closure = v.Closure
		}
		if fn != nil {
			ci.fn = fn
			ci.key = funcKey(fn)
			ci.contract = vc.lookupContract(ci.key)
			ci.tparams = instTypeParams(fn)
			params := fn.Signature.Params()
			args := argVals
			argTypes := call.Args
			if fn.Signature.Recv() != nil {
				rt := vc.tvOf(args[0], argTypes[0].Type())
				ci.recv = &rt
				ci.recvName = fn.Signature.Recv().Name()
				if o := fn.Origin(); o != nil && o.Signature.Recv() != nil {
					ci.recvName = o.Signature.Recv().Name()
				}
				if isPointerRecv(fn.Signature.Recv().Type()) && !vc.isSubobjectAddr(call.Args[0]) {
					if _, isAlloc := call.Args[0].(*ssa.Alloc); !isAlloc {
						vc.safety(st, not(eq(args[0].T, "0")), "nil-receiver@"+fn.Name(), instr)
					}
				}
				args = args[1:]
				argTypes = argTypes[1:]
			}
			_ = params
			for i, a := range args {
				ci.args = append(ci.args, vc.tvOf(a, argTypes[i].Type()))
			}
			if ci.contract != nil && ci.contract.Implement != "" {
				ikey := "(" + qualifyTypeName(ci.contract.Implement, ci.contract.Pkg, vc.w) + ")." + fn.Name()
				if ic := vc.lookupContract(ikey); ic != nil {
					ci.contract = mergeContracts(ci.contract, ic, ci.recvName)
				}
			}
		} else {
			// dynamic call through a function value
			return vc.execDynCall(st, call, instr, v, argVals)
		}
	}
	if ci.contract == nil {
		if vc.isEffectFree(ci.key) {
			// hooks and site assertions attached "before" this call still run (the "after" ones run from the pending-hook
			// mechanism for every call instruction)
			vc.siteGhost(st, &ci, instr, true)
			return vc.freshResults(st, resTuple, "r_"+shortName(ci.key))
		}
		if ci.fn != nil && ci.fn.Blocks != nil && vc.canInline(ci.fn) {
			return vc.inlineCall(st, &ci, argVals, instr)
		}
		vc.unsupported(instr, "missing-contract: call to %s", ci.key)
	}
	if ci.contract.Inline && ci.fn != nil && ci.fn.Blocks != nil {
		return vc.inlineCall(st, &ci, argVals, instr)
	}
	if vc.applyIteration(st, &ci, call, instr, argVals, site) {
		return Val{}
	}
	return vc.applyContract(st, &ci, instr, site)
}

func isPointerRecv(t types.Type) bool {
	_, ok := types.Unalias(t).Underlying().(*types.Pointer)
	return ok
}

func shortName(k string) string {
	if i := strings.LastIndexAny(k, "./)"); i >= 0 && i+1 < len(k) {
		return sanitize(k[i+1:])
	}
	return sanitize(k)
}

func instTypeParams(fn *ssa.Function) map[string]types.Type {
	m := map[string]types.Type{}
	o := fn.Origin()
	if o == nil {
		return m
	}
	var tps *types.TypeParamList
	if o.Signature.Recv() != nil {
		tps = o.Signature.RecvTypeParams()
	} else {
		tps = o.Signature.TypeParams()
	}
	tas := fn.TypeArgs()
	for i := 0; tps != nil && i < tps.Len() && i < len(tas); i++ {
		m[tps.At(i).Obj().Name()] = tas[i]
	}
	return m
}

// mergeContracts: own clauses first, then the inherited interface-level contract with its receiver renamed.
func mergeContracts(own, iface *Contract, recvName string) *Contract {
	m := *own
	m.Requires = append(append([]*Clause{}, iface.Requires...), own.Requires...)
	m.Ensures = append(append([]*Clause{}, iface.Ensures...), own.Ensures...)
	// frame: the interface frame is what dynamic-dispatch callers havoc; an implementation may state a tighter frame of
	// its own, used by callers that know the concrete type. The body is checked against BOTH (atReturn), so neither
	// view is assumed.
	if len(own.Assigns) > 0 && !own.AssignAll {
		m.Assigns = append([]AssignTarget{}, own.Assigns...)
		m.ifaceAssigns = append([]AssignTarget{}, iface.Assigns...)
		m.ifaceAssignAll = iface.AssignAll
		m.hasIfaceFrame = true
		m.AssignAll = false
	} else {
		m.Assigns = append([]AssignTarget{}, iface.Assigns...)
		m.AssignAll = own.AssignAll || iface.AssignAll
	}
	m.Props = append(append([]string{}, own.Props...), iface.Props...)
	m.Lets = append(append([]LetDef{}, iface.Lets...), own.Lets...)
	m.ifaceRecv = iface.RecvName
	m.ifacePkg = iface
	// termination is part of the interface-level contract: callers see only that; an implementation inherits the
	// measure (it may not state a different one) and the obligation to terminate
	if len(iface.Decreases) > 0 {
		if len(own.Decreases) > 0 {
			panic(specError{"decreases: " + own.Key + " implements " + iface.Key + " and inherits its measure; it may not state its own"})
		}
		m.Decreases = iface.Decreases
	}
	m.Terminates = own.Terminates || iface.Terminates
	return &m
}

func (vc *VC) freshResults(st *State, res *types.Tuple, hint string) Val {
	// callee may allocate
	oldTop := vc.top(st)
	newTop := vc.havocHeap(st, "top", "Int")
	st.assume = append(st.assume, app(">=", newTop, oldTop))
	var out []Val
	for i := 0; i < res.Len(); i++ {
		t := res.At(i).Type()
		s := sortOf(t)
		if s == "Real" {
			s = "Real"
		}
		c := vc.d.freshConst(hint, s)
		vc.assumeAllocated(st, c, t)
		out = append(out, Val{T: c, Typ: t})
	}
	switch len(out) {
	case 0:
		return Val{}
	case 1:
		return out[0]
	}
	return Val{Tuple: out}
}

// calleeEnv builds the environment in which a callee's contract is evaluated at a call site.
func (vc *VC) calleeEnv(ci *calleeInfo, heap, old *Heap) *Env {
	e := &Env{vc: vc, pkg: ci.contract.Pkg, vars: map[string]TV{}, heap: heap, old: old, tparams: ci.tparams, fnCtx: ci.fn}
	if ci.recv != nil {
		e.vars[ci.recvName] = *ci.recv
		if ci.contract.ifaceRecv != "" {
			e.vars[ci.contract.ifaceRecv] = *ci.recv
		}
		if _, named, _ := ownerKeyOf(ci.recv.S.Go); named != nil {
			e.tparams = e.typeArgEnv(named)
			for k, v := range ci.tparams {
				e.tparams[k] = v
			}
		}
	}
	sig := ci.sig
	if ci.fn != nil {
		sig = ci.fn.Signature
		if o := ci.fn.Origin(); o != nil {
			// parameter names come from the origin
			for i := 0; i < o.Signature.Params().Len() && i < len(ci.args); i++ {
				e.vars[o.Signature.Params().At(i).Name()] = ci.args[i]
			}
		}
	}
	for i := 0; i < sig.Params().Len() && i < len(ci.args); i++ {
		n := sig.Params().At(i).Name()
		if n == "" || n == "_" {
			n = fmt.Sprintf("arg%d", i)
		}
		e.vars[n] = ci.args[i]
		e.vars[fmt.Sprintf("arg%d", i)] = ci.args[i]
	}
	if ci.closure != nil {
		fn := ci.closure.Fn.(*ssa.Function)
		base := e.locals
		e.locals = func(ce *Env, name string) (TV, bool) {
			for i, fv := range fn.FreeVars {
				if fv.Name() == name {
					et, _ := derefType(fv.Type())
					s := sortOf(et)
					if isPlainStruct(et) {
						return TV{T: ci.closureBind[i], S: goSType(fv.Type())}, true
					}
					return TV{T: app("select", vc.hget(ce.heap, cellArr(s), arrSort(s)), ci.closureBind[i]), S: goSType(et)}, true
				}
			}
			if base != nil {
				return base(ce, name)
			}
			return TV{}, false
		}
		e.cellPtr = func(name string) (Term, types.Type, bool) {
			for i, fv := range fn.FreeVars {
				if fv.Name() == name {
					if et, ok := derefType(fv.Type()); ok && !isPlainStruct(et) {
						return ci.closureBind[i], et, true
					}
				}
			}
			return "", nil, false
		}
	}
	// ghost locals of the callee are internal to it: at a call site each is some unknown value (fixed per call site)
	for _, gl := range ci.contract.GhostLocals {
		ge := &Env{vc: vc, pkg: gl.Pkg, vars: map[string]TV{}, heap: heap, old: old}
		gt := ge.resolveType(gl.Type)
		name := fmt.Sprintf("glocal_%s_%s_%d", sanitize(shortKey(ci.key)), gl.Name, vc.curCallSeq)
		e.vars[gl.Name] = TV{T: vc.d.declConst(name, gt.Sort), S: gt}
	}
	vc.bindLets(e, ci.contract)
	return e
}

// bindLets: lets name entry values of the callee, so they are evaluated in the call's pre-state.
func (vc *VC) bindLets(e *Env, c *Contract) {
	pe := *e
	pe.heap = e.old
	for _, l := range c.Lets {
		e.vars[l.Name] = pe.tr(l.Expr)
	}
}

func (vc *VC) applyContract(st *State, ci *calleeInfo, instr ssa.Instruction, site string) Val {
	c := ci.contract
	if c.Trusted {
		vc.usedTrusted["trusted "+shortFuncKey(c.Key)] = true
	} else if c.IsMethod {
		vc.usedTrusted["interface-contract "+shortFuncKey(c.Key)] = true
	}
	if ci.closure != nil {
		for _, b := range ci.closure.Bindings {
			ci.closureBind = append(ci.closureBind, vc.val(st, b).T)
		}
	}
	st.callCount[ci.key]++
	vc.callSeq++
	vc.curCallSeq = vc.callSeq
	vc.siteGhost(st, ci, instr, true)
	if ci.recv != nil {
		vc.lockHooks(st, ci.key, ci.recv.T, instr, true)
	}
	for _, gt := range c.GhostTags {
		pe := vc.calleeEnv(ci, st.heap, st.heap)
		if tv, ok := pe.vars[gt]; ok && tv.S.Sort == "Slice" {
			vc.retag(st, tv.T)
		}
	}
	vc.beforeAtomic(st, ci, instr)
	pre := st.heap.clone()
	// requires
	env := vc.calleeEnv(ci, st.heap, st.heap)
	for _, r := range c.Requires {
		g := vc.trClause(env, r)
		vc.oblige(st, g, r.Label, "requires", site, clauseProps(r, unionProps(vc.props(), nil)), r.Src, ci.key)
		st.assume = append(st.assume, g)
	}
	vc.measureCheck(st, ci, env, site)
	// object invariants of the callee's type: inside the owning package the caller is responsible for them (outside,
	// the representation is out of reach and they hold by the object-invariant methodology)
	samePkg := vc.contract != nil && vc.contract.Pkg != nil && c.Pkg != nil && vc.contract.Pkg.PkgPath == c.Pkg.PkgPath
	if samePkg {
		for _, inv := range c.ObjInvs {
			g := vc.trClause(env, inv)
			vc.oblige(st, g, "object-invariant:"+inv.Label, "requires", site, clauseProps(inv, vc.props()), inv.Src, ci.key)
		}
	}
	// havoc
	vc.havocAssigns(st, env, c, pre)
	// results
	res := ci.sig.Results()
	var out []Val
	post := vc.calleeEnv(ci, st.heap, pre)
	for i := 0; i < res.Len(); i++ {
		t := res.At(i).Type()
		s := sortOf(t)
		rc := vc.d.freshConst("r_"+shortName(ci.key), s)
		vc.assumeAllocated(st, rc, t)
		out = append(out, Val{T: rc, Typ: t})
		tv := TV{T: rc, S: goSType(t)}
		post.vars[fmt.Sprintf("result%d", i)] = tv
		if i == 0 {
			post.vars["result"] = tv
		}
		if n := res.At(i).Name(); n != "" && n != "_" {
			post.vars[n] = tv
		}
		if ci.fn != nil {
			if o := ci.fn.Origin(); o != nil {
				if n := o.Signature.Results().At(i).Name(); n != "" && n != "_" {
					post.vars[n] = tv
				}
			}
		}
	}
	if c.Pure && res.Len() == 1 && !hasDefiningEnsures(c) && ci.recv != nil {
		// pure method without defining equation: an uninterpreted function of receiver and arguments
		rt := res.At(0).Type()
		sorts := []Sort{ci.recv.S.Sort}
		ts := []Term{ci.recv.T}
		for _, a := range ci.args {
			sorts = append(sorts, a.S.Sort)
			ts = append(ts, a.T)
		}
		fn := vc.pmFun(c.Key, sorts, sortOf(rt))
		st.assume = append(st.assume, eq(out[0].T, app(fn, ts...)))
	}
	for _, en := range c.Ensures {
		st.assume = append(st.assume, vc.trClause(post, en))
	}
	if samePkg {
		for _, inv := range c.ObjInvs {
			st.assume = append(st.assume, vc.trClause(post, inv))
		}
	}
	if ci.key == "(*sync.WaitGroup).Wait" {
		vc.joinThreads(st, instr)
	}
	if ci.recv != nil {
		vc.lockHooks(st, ci.key, ci.recv.T, instr, false)
	}
	switch len(out) {
	case 0:
		return Val{}
	case 1:
		return out[0]
	}
	return Val{Tuple: out}
}

// retag gives the elements of a slice the ghost tags 0..len-1 (ghost state: always permitted).
func (vc *VC) retag(st *State, s Term) {
	tags := vc.hget(st.heap, "Tags", tagsSort)
	nt := vc.d.freshConst("retag", "(Array Int Int)")
	st.assume = append(st.assume, fmt.Sprintf("(forall ((k Int)) (! (=> (and (<= 0 k) (< k (slen %s))) (= (select %s (idx %s k)) k)) :pattern ((idx %s k))))", s, nt, s, s))
	vc.setHeap(st, "Tags", tagsSort, app("store", tags, app("sid", s), nt))
}

func hasDefiningEnsures(c *Contract) bool {
	for _, cl := range c.Ensures {
		if be, ok := cl.Expr.(*ast.BinaryExpr); ok && be.Op == token.EQL {
			if rid, ok := be.X.(*ast.Ident); ok && (rid.Name == "result" || rid.Name == "result0") {
				return true
			}
		}
	}
	return false
}

func unionProps(a, b []string) []string {
	seen := map[string]bool{}
	var out []string
	for _, x := range append(append([]string{}, a...), b...) {
		if !seen[x] {
			seen[x] = true
			out = append(out, x)
		}
	}
	sort.Strings(out)
	return out
}

// havocAssigns forgets exactly the locations the callee may write (evaluated in the pre-state).
func (vc *VC) havocAssigns(st *State, env *Env, c *Contract, pre *Heap) {
	oldTop := vc.top(st)
	newTop := vc.havocHeap(st, "top", "Int")
	st.assume = append(st.assume, app(">=", newTop, oldTop))
	if c.AssignAll {
		var names []string
		for n := range vc.arrays {
			names = append(names, n)
		}
		sort.Strings(names)
		for _, n := range names {
			if n == "top" {
				continue
			}
			vc.havocHeap(st, n, vc.arrays[n])
		}
		vc.epochs++
		st.heap.epoch = fmt.Sprintf("e%d", vc.epochs)
		return
	}
	penv := *env
	penv.heap = pre
	penv.old = pre
	var facts []Term
	penv.facts = &facts
	defer func() {
		seen := map[Term]bool{}
		for _, f := range facts {
			if !seen[f] {
				seen[f] = true
				st.assume = append(st.assume, f)
			}
		}
	}()
	type upd struct {
		sort  Sort
		idxs  []Term
		whole bool
	}
	ups := map[string]*upd{}
	var order []string
	foreign := vc.contract == nil || vc.contract.Pkg == nil || c.Pkg == nil || vc.contract.Pkg.PkgPath != c.Pkg.PkgPath
	for _, t := range c.Assigns {
		if foreign && c.Linearizable && selectsUnexportedField(t.Expr) {
			// the private representation of another package's type: invisible to this caller (it can neither read nor
			// name it); the callee's abstract state is what the caller reasons about
			continue
		}
		for _, lv := range penv.lvals(t.Expr) {
			u := ups[lv.Arr]
			if u == nil {
				u = &upd{sort: lv.Sort}
				ups[lv.Arr] = u
				order = append(order, lv.Arr)
			}
			if t.Any || lv.Idx == "" {
				u.whole = true
			} else {
				u.idxs = append(u.idxs, lv.Idx)
			}
		}
	}
	for _, arr := range order {
		u := ups[arr]
		if u.whole {
			vc.havocHeap(st, arr, u.sort)
			continue
		}
		cur := vc.hget(st.heap, arr, u.sort)
		es := arraySorts(u.sort)[1]
		for _, idx := range u.idxs {
			hv := vc.d.freshConst("havoc", es)
			cur = app("store", cur, idx, hv)
			// the unknown new content is a well-formed value of its sort
			switch es {
			case "Slice":
				st.assume = append(st.assume, app(">=", app("sid", hv), "0"), app(">=", app("slen", hv), "0"), app(">=", app("soff", hv), "0"), implies(eq(app("sid", hv), "0"), eq(app("slen", hv), "0")), app("<=", app("slen", hv), maxLen))
			}
		}
		vc.setHeap(st, arr, u.sort, cur)
	}
}

// ---------- return: postconditions and frame ----------

func (vc *VC) atReturn(st *State, ret *ssa.Return) {
	// deferred calls run before the function returns (RunDefers precedes Return in SSA)
	if vc.contract == nil {
		return
	}
	c := vc.effective
	site := posString(vc.w, ret.Pos())
	if !ret.Pos().IsValid() {
		site = posString(vc.w, vc.fn.Pos())
	}
	oldHeap := newHeap()
	if vc.linearMode() && st.lp != nil {
		oldHeap = st.lp.pre // postconditions speak about the state at the linearization point
	}
	env := vc.fnEnv(st, oldHeap)
	vc.bindSelf(env)
	sig := vc.fn.Signature
	for i, r := range ret.Results {
		v := vc.val(st, r)
		tv := TV{T: v.T, S: goSType(sig.Results().At(i).Type())}
		env.vars[fmt.Sprintf("result%d", i)] = tv
		if i == 0 {
			env.vars["result"] = tv
		}
		if n := sig.Results().At(i).Name(); n != "" && n != "_" {
			env.vars[n] = tv
		}
	}
	vc.bindLetsOld(env, c)
	vc.pathCover(st, site)
	vc.threadEndCheck(st, site)
	for _, g := range vc.contract.Ghosts {
		if g.Callee == "@return" {
			vc.ghostAssign(st, env, g.Target, g.Value)
			env.heap = st.heap
		}
	}
	for _, en := range c.Ensures {
		if en.Free {
			continue
		}
		g := vc.trClause(env, en)
		vc.oblige(st, g, en.Label, "ensures", site, clauseProps(en, c.Props), en.Src, "")
	}
	for _, inv := range c.ObjInvs {
		g := vc.trClause(env, inv)
		vc.oblige(st, g, "object-invariant:"+inv.Label, "ensures", site, clauseProps(inv, c.Props), inv.Src, "")
	}
	vc.frameCheck(st, env, c, site, "frame:")
	if c.hasIfaceFrame && !c.ifaceAssignAll {
		ic := *c
		ic.Assigns = c.ifaceAssigns
		vc.frameCheck(st, env, &ic, site, "interface-frame:")
	}
}

func (vc *VC) bindLetsOld(env *Env, c *Contract) {
	// lets are evaluated in the pre-state (they name entry values)
	pe := *env
	pe.heap = env.old
	pe.vars = env.vars
	for _, l := range c.Lets {
		env.vars[l.Name] = pe.tr(l.Expr)
	}
}

func (vc *VC) bindSelf(env *Env) {
	c := vc.effective
	if c == nil {
		return
	}
	if c.ifaceRecv != "" && len(vc.fn.Params) > 0 && vc.fn.Signature.Recv() != nil {
		env.vars[c.ifaceRecv] = env.vars[vc.fn.Params[0].Name()]
	}
}

func (vc *VC) frameCheck(st *State, env *Env, c *Contract, site string, labelPrefix string) {
	if c.AssignAll {
		return
	}
	penv := *env
	penv.heap = newHeap()
	penv.old = penv.heap
	var facts []Term
	penv.facts = &facts
	allowed := map[string][]Term{}
	whole := map[string]bool{}
	for _, t := range c.Assigns {
		for _, lv := range penv.lvals(t.Expr) {
			if t.Any || lv.Idx == "" || t.Guard != nil {
				// guarded locations also change through other threads (the havoc at Lock): outside the sequential frame
				whole[lv.Arr] = true
			} else {
				allowed[lv.Arr] = append(allowed[lv.Arr], lv.Idx)
			}
		}
	}
	for _, f := range facts {
		st.assume = append(st.assume, f)
	}
	var names []string
	for n := range st.heap.cur {
		names = append(names, n)
	}
	sort.Strings(names)
	shared := vc.sharedArrays(st)
	for _, n := range names {
		if n == "top" || n == "Tags" || whole[n] || strings.HasPrefix(n, "IterVisited_") || shared[n] {
			continue
		}
		s := vc.arrays[n]
		final := st.heap.cur[n]
		initial := vc.d.declConst(n, s)
		if final == initial {
			continue
		}
		var goal Term
		if vc.refKeyed(n) {
			conds := []Term{app("<", "0", "fx"), app("<=", "fx", vc.d.declConst("top", "Int"))}
			for _, a := range allowed[n] {
				conds = append(conds, not(eq("fx", a)))
			}
			goal = fmt.Sprintf("(forall ((fx Int)) (=> %s (= (select %s fx) (select %s fx))))", and(conds...), final, initial)
		} else if ks := arraySorts(s); len(allowed[n]) > 0 && ks != nil {
			var conds []Term
			for _, a := range allowed[n] {
				conds = append(conds, not(eq("fx", a)))
			}
			goal = fmt.Sprintf("(forall ((fx %s)) (=> %s (= (select %s fx) (select %s fx))))", ks[0], and(conds...), final, initial)
		} else {
			goal = eq(final, initial)
		}
		vc.oblige(st, goal, labelPrefix+n, "frame", site, c.Props, "assigns clause permits the change to "+n, "")
	}
}

// ---------- builtins ----------

func (vc *VC) execBuiltin(st *State, b *ssa.Builtin, call *ssa.CallCommon, instr ssa.Instruction) Val {
	switch b.Name() {
	case "len":
		v := vc.val(st, call.Args[0])
		switch sortOf(call.Args[0].Type()) {
		case "Slice":
			return Val{T: app("slen", v.T), Typ: types.Typ[types.Int]}
		case "Str":
			return Val{T: app("strlen", v.T), Typ: types.Typ[types.Int]}
		}
		if mt, ok := types.Unalias(call.Args[0].Type()).Underlying().(*types.Map); ok {
			ks := sortOf(mt.Key())
			fn := vc.maplenFun(ks)
			md := vc.hget(st.heap, mapDomArr(ks, sortOf(mt.Elem())), mapDomSort(ks))
			return Val{T: app("ite", eq(v.T, "0"), "0", app(fn, app("select", md, v.T))), Typ: types.Typ[types.Int]}
		}
		vc.unsupported(instr, "len of %v", call.Args[0].Type())
	case "cap":
		v := vc.val(st, call.Args[0])
		c := vc.d.freshConst("cap", "Int")
		st.assume = append(st.assume, app(">=", c, app("slen", v.T)))
		return Val{T: c, Typ: types.Typ[types.Int]}
	case "append":
		return vc.execAppend(st, call, instr)
	case "delete":
		m := vc.val(st, call.Args[0])
		k := vc.val(st, call.Args[1]).T
		mt := types.Unalias(call.Args[0].Type()).Underlying().(*types.Map)
		ks := sortOf(mt.Key())
		md := vc.hget(st.heap, mapDomArr(ks, sortOf(mt.Elem())), mapDomSort(ks))
		vc.setHeap(st, mapDomArr(ks, sortOf(mt.Elem())), mapDomSort(ks), app("ite", eq(m.T, "0"), md, app("store", md, m.T, app("store", app("select", md, m.T), k, "false"))))
		return Val{}
	case "print", "println":
		return Val{}
	}
	vc.unsupported(instr, "builtin %s", b.Name())
	return Val{}
}

func (vc *VC) execAppend(st *State, call *ssa.CallCommon, instr ssa.Instruction) Val {
	s := vc.val(st, call.Args[0])
	t := vc.val(st, call.Args[1])
	rt := call.Args[0].Type()
	es := sortOf(elemTypeOf(rt))
	if sortOf(call.Args[1].Type()) == "Str" {
		vc.unsupported(instr, "append(bytes, string...)")
	}
	a := vc.alloc(st, "append")
	el := vc.hget(st.heap, elemsArr(es), elemsSort(es))
	contents := vc.d.freshConst("appended", fmt.Sprintf("(Array Int %s)", es))
	ls, lt := app("slen", s.T), app("slen", t.T)
	// old part
	st.assume = append(st.assume, fmt.Sprintf("(forall ((i Int)) (! (=> (and (<= 0 i) (< i %s)) (= (select %s i) (select (select %s (sid %s)) (idx %s i)))) :pattern ((select %s i))))",
		ls, contents, el, s.T, s.T, contents))
	// appended part
	if n, ok := vc.staticLen(call.Args[1]); ok && n <= 4 {
		for i := 0; i < n; i++ {
			st.assume = append(st.assume, eq(app("select", contents, app("+", ls, intLit(int64(i)))),
				app("select", app("select", el, app("sid", t.T)), app("idx", t.T, intLit(int64(i))))))
		}
	} else {
		// second trigger form: index-based
		st.assume = append(st.assume, fmt.Sprintf("(forall ((j Int)) (! (=> (and (<= %s j) (< j (+ %s %s))) (= (select %s j) (select (select %s (sid %s)) (idx %s (- j %s))))) :pattern ((select %s j))))",
			ls, ls, lt, contents, el, t.T, t.T, ls, contents))
	}
	vc.setHeap(st, elemsArr(es), elemsSort(es), app("store", el, a, contents))
	// ghost slot tags travel with the elements
	tags := vc.hget(st.heap, "Tags", tagsSort)
	tcont := vc.d.freshConst("appended_tags", "(Array Int Int)")
	st.assume = append(st.assume, fmt.Sprintf("(forall ((i Int)) (! (=> (and (<= 0 i) (< i %s)) (= (select %s i) (select (select %s (sid %s)) (idx %s i)))) :pattern ((select %s i))))",
		ls, tcont, tags, s.T, s.T, tcont))
	if n, ok := vc.staticLen(call.Args[1]); ok && n <= 4 {
		for i := 0; i < n; i++ {
			st.assume = append(st.assume, eq(app("select", tcont, app("+", ls, intLit(int64(i)))),
				app("select", app("select", tags, app("sid", t.T)), app("idx", t.T, intLit(int64(i))))))
		}
	} else {
		st.assume = append(st.assume, fmt.Sprintf("(forall ((j Int)) (! (=> (and (<= %s j) (< j (+ %s %s))) (= (select %s j) (select (select %s (sid %s)) (idx %s (- j %s))))) :pattern ((select %s j))))",
			ls, ls, lt, tcont, tags, t.T, t.T, ls, tcont))
	}
	vc.setHeap(st, "Tags", tagsSort, app("store", tags, a, tcont))
	res := vc.d.freshConst("app", "Slice")
	st.assume = append(st.assume, eq(res, app("mk_slice", a, "0", app("+", ls, lt))))
	return Val{T: res, Typ: rt}
}

// staticLen recognises the varargs idiom: slice t[:] of new [n]T.
func (vc *VC) staticLen(v ssa.Value) (int, bool) {
	if sl, ok := v.(*ssa.Slice); ok && sl.Low == nil && sl.High == nil {
		if al, ok := sl.X.(*ssa.Alloc); ok {
			if at, ok := al.Type().(*types.Pointer).Elem().Underlying().(*types.Array); ok {
				return int(at.Len()), true
			}
		}
	}
	return 0, false
}

// ---------- dynamic calls through function values ----------

func (vc *VC) execDynCall(st *State, call *ssa.CallCommon, instr ssa.Instruction, f Val, argVals []Val) Val {
	site := vc.siteOf(instr)
	sig := call.Signature()
	var key string
	switch x := call.Value.(type) {
	case *ssa.Parameter:
		key = vc.key + "#" + x.Name()
	case *ssa.FreeVar:
		key = vc.key + "#" + x.Name()
	case *ssa.UnOp:
		// a function value loaded from a struct field: contract "fieldfunc (T).Field"
		if fa, ok := x.X.(*ssa.FieldAddr); ok && x.Op == token.MUL {
			if pt, ok := types.Unalias(fa.X.Type()).Underlying().(*types.Pointer); ok {
				if stt, ok := types.Unalias(pt.Elem()).Underlying().(*types.Struct); ok {
					key = "fieldfunc " + typeKey(pt.Elem()) + "." + stt.Field(fa.Field).Name()
				}
			}
		}
	}
	var c *Contract
	if key != "" {
		c = vc.lookupContract(key)
	}
	if c == nil {
		if n, ok := types.Unalias(call.Value.Type()).(*types.Named); ok {
			key = "functype " + typeKey(n)
			c = vc.lookupContract(key)
		}
	}
	if c == nil {
		// no contract for this function value: the call must be unreachable
		vc.oblige(st, "false", "missing-contract:dynamic-call", "safety", site, vc.props(), "a call through a function value without contract is unreachable", "")
		st.dead = true
		return Val{}
	}
	ci := &calleeInfo{key: key, contract: c, sig: sig}
	for i, a := range argVals {
		ci.args = append(ci.args, vc.tvOf(a, call.Args[i].Type()))
	}
	fv := TV{T: f.T, S: goSType(call.Value.Type())}
	ci.recv = &fv
	ci.recvName = "fn"
	if c.Pure && sig.Results().Len() == 1 {
		// result is the application term; no effects
		ts := []Term{f.T}
		for _, a := range argVals {
			ts = append(ts, a.T)
		}
		env := vc.calleeEnv(ci, st.heap, st.heap)
		for _, r := range c.Requires {
			g := vc.trClause(env, r)
			vc.oblige(st, g, r.Label, "requires", site, vc.props(), r.Src, key)
			st.assume = append(st.assume, g)
		}
		// the value's own precondition (whatever function or closure flows here) must hold for these arguments
		pre := app(vc.applyPreFun(sig), ts...)
		vc.oblige(st, pre, "callpre", "requires", site, vc.props(), "precondition of the function value "+call.Value.Name(), key)
		st.assume = append(st.assume, pre)
		rt := sig.Results().At(0).Type()
		return Val{T: app(vc.applyFun(sig, nil), ts...), Typ: rt}
	}
	return vc.applyContract(st, ci, instr, site)
}

// pureFuncAxiom: when a function constant or closure with a pure defining contract is created, relate applications
// of the value to the definition.
func (vc *VC) pureFuncAxiom(st *State, fn *ssa.Function, fval Term, binds []Term) {
	sink := func(t Term) { st.assume = append(st.assume, t) }
	if len(fn.FreeVars) == 0 {
		sink = func(t Term) { vc.d.axiom(t) }
	}
	key := funcKey(fn)
	c := vc.lookupContract(key)
	if c == nil || !c.Pure {
		return
	}
	sig := fn.Signature
	if sig.Results().Len() != 1 || sig.Recv() != nil {
		return
	}
	var def ast.Expr
	for _, cl := range c.Ensures {
		if be, ok := cl.Expr.(*ast.BinaryExpr); ok && be.Op == token.EQL {
			if rid, ok := be.X.(*ast.Ident); ok && (rid.Name == "result" || rid.Name == "result0") {
				def = be.Y
			}
		}
	}
	e := &Env{vc: vc, pkg: c.Pkg, vars: map[string]TV{}, heap: st.heap, old: st.heap, tparams: instTypeParams(fn)}
	if len(e.tparams) == 0 {
		e.tparams = vc.tparamsEnv
	}
	var bound []string
	ts := []Term{fval}
	params := fn.Params
	for i, p := range params {
		vn := fmt.Sprintf("pa%d_%s", i, sanitize(p.Name()))
		s := sortOf(p.Type())
		vc.d.declSort(s)
		bound = append(bound, fmt.Sprintf("(%s %s)", vn, s))
		ts = append(ts, vn)
		e.vars[p.Name()] = TV{T: vn, S: goSType(p.Type())}
		if o := fn.Origin(); o != nil && i < len(o.Params) {
			e.vars[o.Params[i].Name()] = e.vars[p.Name()]
		}
	}
	if len(fn.FreeVars) > 0 {
		e.locals = func(ce *Env, name string) (TV, bool) {
			for i, fv := range fn.FreeVars {
				if fv.Name() == name && i < len(binds) {
					et, _ := derefType(fv.Type())
					s := sortOf(et)
					return TV{T: app("select", vc.hget(ce.heap, cellArr(s), arrSort(s)), binds[i]), S: goSType(et)}, true
				}
			}
			return TV{}, false
		}
	}
	// precondition predicate of the value
	{
		pre := []Term{}
		for _, r := range c.Requires {
			pre = append(pre, vc.trClause(e, r))
		}
		pp := app(vc.applyPreFun(sig), ts...)
		if len(bound) == 0 {
			sink(eq(pp, and(pre...)))
		} else {
			sink(fmt.Sprintf("(forall (%s) (! (= %s %s) :pattern (%s)))", strings.Join(bound, " "), pp, and(pre...), pp))
		}
	}
	ap := app(vc.applyFun(sig, nil), ts...)
	var ax Term
	if def != nil {
		body := e.tr(def)
		if len(bound) == 0 {
			ax = eq(ap, body.T)
		} else {
			ax = fmt.Sprintf("(forall (%s) (! (= %s %s) :pattern (%s)))", strings.Join(bound, " "), ap, body.T, ap)
		}
	} else {
		// no defining equation: every postcondition holds of the application term whenever the precondition holds
		rv := TV{T: ap, S: goSType(sig.Results().At(0).Type())}
		e.vars["result"] = rv
		e.vars["result0"] = rv
		var pre, post []Term
		for _, r := range c.Requires {
			pre = append(pre, vc.trClause(e, r))
		}
		for _, en := range c.Ensures {
			post = append(post, vc.trClause(e, en))
		}
		if len(post) == 0 {
			return
		}
		if len(bound) == 0 {
			ax = implies(and(pre...), and(post...))
		} else {
			ax = fmt.Sprintf("(forall (%s) (! (=> %s %s) :pattern (%s)))", strings.Join(bound, " "), and(pre...), and(post...), ap)
		}
	}
	sink(ax)
	vc.usedTrusted["pure-definition "+shortFuncKey(key)+" (proved on its body)"] = true
}

// closureGhost applies "closure k ghost ..." updates and pure-closure axioms at a MakeClosure.
func (vc *VC) closureGhost(st *State, mc *ssa.MakeClosure, ref Term) {
	fn := mc.Fn.(*ssa.Function)
	var binds []Term
	for _, b := range mc.Bindings {
		binds = append(binds, vc.val(st, b).T)
	}
	vc.pureFuncAxiom(st, fn, ref, binds)
	if vc.contract == nil {
		return
	}
	// ordinal: position of the anonymous function among the parent's AnonFuncs
	ord := 0
	for i, af := range vc.fn.AnonFuncs {
		if af == fn {
			ord = i + 1
		}
	}
	ups := vc.contract.Closures[ord]
	for _, u := range ups {
		env := vc.fnEnvNames(st)
		env.vars["closure"] = TV{T: ref, S: goSType(mc.Type())}
		vc.ghostAssign(st, env, u.Target, u.Value)
	}
	if cc := vc.lookupContract(funcKey(fn)); cc != nil {
		vc.closureCreationChecks(st, mc, fn, cc, ref, binds, ups)
	}
}

// closureCreationChecks: (1) preconditions a closure states over its captured variables hold where it is created;
// (2) when the closure is handed out as an interface callback, its contract refines the interface-level contract
// (behavioural subtyping), checked over two arbitrary heaps.
func (vc *VC) closureCreationChecks(st *State, mc *ssa.MakeClosure, fn *ssa.Function, cc *Contract, ref Term, binds []Term, ups []GhostUpdate) {
	site := vc.siteOf(mc)
	var cbArgs []TV
	for _, p := range fn.Params {
		cbArgs = append(cbArgs, TV{T: vc.d.freshConst("cbarg_"+p.Name(), sortOf(p.Type())), S: goSType(p.Type())})
	}
	mkCI := func() *calleeInfo {
		ci := &calleeInfo{key: funcKey(fn), contract: cc, sig: fn.Signature, fn: fn, closure: mc, closureBind: binds}
		ci.args = append(ci.args, cbArgs...)
		return ci
	}
	for _, r := range cc.Requires {
		if !r.AtCreation {
			continue
		}
		env := vc.calleeEnv(mkCI(), st.heap, st.heap)
		g := vc.trClause(env, r)
		vc.oblige(st, g, r.Label, "requires-at-creation", site, clauseProps(r, vc.props()), r.Src, funcKey(fn))
	}
	if cc.Callback == "" {
		return
	}
	ic := vc.lookupContract(cc.Callback)
	if ic == nil {
		panic(specError{"callback: no interface contract " + cc.Callback})
	}
	vc.cbCount++
	h1 := &Heap{cur: map[string]Term{}, epoch: fmt.Sprintf("cbpre%d", vc.cbCount)}
	h2 := &Heap{cur: map[string]Term{}, epoch: fmt.Sprintf("cbpost%d", vc.cbCount)}
	// effectively-final captured variables
	for _, b := range mc.Bindings {
		if al, ok := b.(*ssa.Alloc); ok {
			stores := 0
			for _, r := range *al.Referrers() {
				if s, ok := r.(*ssa.Store); ok && s.Addr == al {
					stores++
				}
			}
			if stores > 1 {
				vc.unsupported(mc, "captured variable %s of callback closure is assigned more than once", al.Comment)
			}
		}
	}
	sub := st.clone()
	sub.assume = append([]Term{}, st.assume...)
	isFuncType := strings.HasPrefix(cc.Callback, "functype ")
	var self TV
	if isFuncType {
		self = TV{T: ref, S: goSType(mc.Type())}
	} else {
		asType := (&Env{vc: vc, pkg: cc.Pkg, vars: map[string]TV{}, heap: st.heap, old: st.heap}).resolveType(cc.CallbackAs)
		self = TV{T: vc.toAny(ref, asType.Go), S: goSType(mustIfaceOf(vc, cc.Callback))}
	}
	// facts that hold in both arbitrary heaps: ghost attributes given at creation, captured variables unchanged
	for _, h := range []*Heap{h1, h2} {
		for _, u := range ups {
			cenv := vc.fnEnvNames(st)
			cenv.vars["closure"] = TV{T: ref, S: goSType(mc.Type())}
			val := cenv.tr(u.Value)
			henv := *cenv
			henv.heap = h
			henv.old = h
			tgt := henv.tr(u.Target)
			sub.assume = append(sub.assume, eq(tgt.T, val.T))
		}
		for i, fv := range fn.FreeVars {
			et, _ := derefType(fv.Type())
			if isPlainStruct(et) {
				continue
			}
			s := sortOf(et)
			sub.assume = append(sub.assume, eq(app("select", vc.hget(h, cellArr(s), arrSort(s)), binds[i]), app("select", vc.hget(st.heap, cellArr(s), arrSort(s)), binds[i])))
		}
		for _, se := range cc.Stable {
			now := vc.calleeEnv(mkCI(), st.heap, st.heap).tr(se)
			then := vc.calleeEnv(mkCI(), h, h).tr(se)
			sub.assume = append(sub.assume, eq(then.T, now.T))
			vc.usedTrusted["A-STABLE-WIRING: "+exprString(se)+" is the same when the callback runs as when the closure was created"] = true
		}
	}
	sub.assume = append(sub.assume, app(">=", vc.hget(h2, "top", "Int"), vc.hget(h1, "top", "Int")), app(">=", vc.hget(h1, "top", "Int"), vc.top(st)))
	ienv := func(heap, old *Heap) *Env {
		e := &Env{vc: vc, pkg: ic.Pkg, vars: map[string]TV{ic.RecvName: self}, heap: heap, old: old}
		if isFuncType {
			// the function type's contract names the parameters of the function type's signature
			e.vars["fn"] = self
			sig := fn.Signature
			for i := 0; i < sig.Params().Len() && i < len(cbArgs); i++ {
				e.vars[sig.Params().At(i).Name()] = cbArgs[i]
				e.vars[fmt.Sprintf("arg%d", i)] = cbArgs[i]
			}
		}
		return e
	}
	cenv := func(heap, old *Heap) *Env { return vc.calleeEnv(mkCI(), heap, old) }
	// results
	res := fn.Signature.Results()
	bindRes := func(e *Env) {
		for i := 0; i < res.Len(); i++ {
			tv := TV{T: vc.d.declConst(fmt.Sprintf("cbres%d_%d", vc.cbCount, i), sortOf(res.At(i).Type())), S: goSType(res.At(i).Type())}
			e.vars[fmt.Sprintf("result%d", i)] = tv
			if i == 0 {
				e.vars["result"] = tv
			}
		}
	}
	// A: interface precondition (+ creation-time facts) implies the closure's precondition
	pre := sub.clone()
	ie1 := ienv(h1, h1)
	for _, r := range ic.Requires {
		pre.assume = append(pre.assume, vc.trClauseFor(pre, ie1, r))
	}
	ce1 := cenv(h1, h1)
	for _, r := range cc.Requires {
		g := vc.trClauseFor(pre, ce1, r)
		if r.AtCreation {
			// holds at creation; assumed stable until the callback runs (A-STABLE-WIRING)
			pre.assume = append(pre.assume, g)
			vc.usedTrusted["A-STABLE-WIRING: "+r.Label+" of "+shortFuncKey(funcKey(fn))+" holds at closure creation and is assumed unchanged when the callback runs"] = true
			continue
		}
		vc.oblige(pre, g, "callback-pre:"+r.Label, "subtype", site, clauseProps(r, vc.props()), "interface precondition implies closure precondition: "+r.Src, funcKey(fn))
		pre.assume = append(pre.assume, g)
	}
	// a callback type that promises to terminate is only implemented by closures that do
	if ic.Terminates && !calleeTerminates(cc) {
		vc.oblige(pre, "false", "callback-terminates", "termination", site, vc.props(), "the closure is known to terminate (the contract it is handed out under says terminates)", funcKey(fn))
	}
	// measure: the caller of the interface method only sees the interface-level measure, so the closure's own measure
	// may not exceed it
	if len(ic.Decreases) > 0 {
		if len(cc.Decreases) == 0 {
			vc.oblige(pre, "false", "callback-measure", "termination", site, vc.props(), "the closure states a measure (the interface-level contract has one: "+measureSrc(ic.Decreases)+")", funcKey(fn))
		} else {
			saved := vc.curState
			vc.curState = pre
			var mi, mc []Term
			for _, d := range ic.Decreases {
				mi = append(mi, vc.trMeasure(ie1, d))
			}
			for _, d := range cc.Decreases {
				mc = append(mc, vc.trMeasure(ce1, d))
			}
			vc.curState = saved
			vc.oblige(pre, lexLessEq(mc, mi), "callback-measure", "termination", site, vc.props(), "("+measureSrc(cc.Decreases)+") of the closure  <=  ("+measureSrc(ic.Decreases)+") of the interface-level contract", funcKey(fn))
		}
	}
	// B: closure postcondition (+ its frame) implies the interface postcondition
	post := pre.clone()
	ce2 := cenv(h2, h1)
	bindRes(ce2)
	ie2 := ienv(h2, h1)
	bindRes(ie2)
	for _, en := range cc.Ensures {
		post.assume = append(post.assume, vc.trClauseFor(post, ce2, en))
	}
	var goals []Term
	var gsrc []*Clause
	for _, en := range ic.Ensures {
		goals = append(goals, vc.trClauseFor(post, ie2, en))
		gsrc = append(gsrc, en)
	}
	// frame: what the closure does not assign is the same in both heaps
	whole := map[string]bool{}
	locs := map[string][]Term{}
	pe := *ce1
	for _, t := range cc.Assigns {
		for _, lv := range pe.lvals(t.Expr) {
			if t.Any || lv.Idx == "" {
				whole[lv.Arr] = true
			} else {
				locs[lv.Arr] = append(locs[lv.Arr], lv.Idx)
			}
		}
	}
	iwhole := map[string]bool{}
	ilocs := map[string][]Term{}
	ipe := *ie1
	for _, t := range ic.Assigns {
		for _, lv := range ipe.lvals(t.Expr) {
			if t.Any || lv.Idx == "" {
				iwhole[lv.Arr] = true
			} else {
				ilocs[lv.Arr] = append(ilocs[lv.Arr], lv.Idx)
			}
		}
	}
	names := map[string]bool{}
	for n := range h1.cur {
		names[n] = true
	}
	for n := range h2.cur {
		names[n] = true
	}
	var sorted []string
	for n := range names {
		sorted = append(sorted, n)
	}
	sort.Strings(sorted)
	for _, n := range sorted {
		if n == "top" || whole[n] || cc.AssignAll {
			continue
		}
		s := vc.arrays[n]
		a1 := vc.hget(h1, n, s)
		a2 := vc.hget(h2, n, s)
		if ls := locs[n]; len(ls) > 0 {
			ks := arraySorts(s)
			var conds []Term
			for _, l := range ls {
				conds = append(conds, not(eq("fx", l)))
			}
			post.assume = append(post.assume, fmt.Sprintf("(forall ((fx %s)) (! (=> %s (= (select %s fx) (select %s fx))) :pattern ((select %s fx))))", ks[0], and(conds...), a2, a1, a2))
		} else {
			post.assume = append(post.assume, eq(a2, a1))
		}
	}
	for i, g := range goals {
		vc.oblige(post, g, "callback-post:"+gsrc[i].Label, "subtype", site, clauseProps(gsrc[i], vc.props()), "closure postcondition implies interface postcondition: "+gsrc[i].Src, funcKey(fn))
	}
	// frame subtyping: everything the closure assigns is permitted by the interface-level frame
	if !ic.AssignAll {
		for n := range whole {
			if !iwhole[n] {
				vc.oblige(post, "false", "callback-frame:"+n, "subtype", site, vc.props(), "interface-level frame permits the closure to assign "+n, funcKey(fn))
			}
		}
		for n, ls := range locs {
			if iwhole[n] {
				continue
			}
			for _, l := range ls {
				var alts []Term
				for _, il := range ilocs[n] {
					alts = append(alts, eq(l, il))
				}
				vc.oblige(pre, or(alts...), "callback-frame:"+n, "subtype", site, vc.props(), "interface-level frame permits the closure to assign "+n, funcKey(fn))
			}
		}
	}
}

func mustIfaceOf(vc *VC, methodKey string) types.Type {
	// "(pkgpath.Iface).Method" -> the interface type
	end := strings.Index(methodKey, ")")
	key := methodKey[1:end]
	i := strings.LastIndex(key, ".")
	p := vc.w.AllPkgs[key[:i]]
	if p == nil {
		panic(specError{"callback: unknown package in " + methodKey})
	}
	o := p.Types.Scope().Lookup(key[i+1:])
	if o == nil {
		panic(specError{"callback: unknown interface in " + methodKey})
	}
	return o.Type()
}

// trClauseFor translates a clause while directing heap facts to the given state.
func (vc *VC) trClauseFor(st *State, env *Env, c *Clause) Term {
	saved := vc.curState
	vc.curState = st
	defer func() { vc.curState = saved }()
	return vc.trClause(env, c)
}

// fnEnvNames: function environment that can also see local variables by name (latest definition on this path).
func (vc *VC) fnEnvNames(st *State) *Env {
	env := vc.fnEnv(st, newHeap())
	base := env.locals
	env.locals = func(ce *Env, name string) (TV, bool) {
		if tv, ok := base(ce, name); ok {
			return tv, true
		}
		if name == "_result" && vc.curInstr != nil {
			// in an after-call hook: the (single) result of that call
			if cl, ok := vc.curInstr.(*ssa.Call); ok {
				if rv, ok := st.vals[cl]; ok && rv.T != "" {
					return TV{T: rv.T, S: goSType(cl.Type())}, true
				}
			}
		}
		if strings.HasPrefix(name, "_result") && len(name) == 8 && vc.curInstr != nil {
			// _result0, _result1: components of a tuple result
			if cl, ok := vc.curInstr.(*ssa.Call); ok {
				if rv, ok := st.vals[cl]; ok && len(rv.Tuple) > int(name[7]-'0') {
					if tup, ok := cl.Type().(*types.Tuple); ok {
						i := int(name[7] - '0')
						return TV{T: rv.Tuple[i].T, S: goSType(tup.At(i).Type())}, true
					}
				}
			}
		}
		if strings.HasPrefix(name, "_arg") && len(name) == 5 && vc.curInstr != nil {
			// _arg0, _arg1, ...: the arguments of the call a hook or site assertion is attached to (receiver not counted):
			// lets contracts speak about what is passed without naming the caller's local variables
			if cl, ok := vc.curInstr.(ssa.CallInstruction); ok {
				cc := cl.Common()
				args := cc.Args
				if !cc.IsInvoke() {
					if f, ok := cc.Value.(*ssa.Function); ok && f.Signature.Recv() != nil && len(args) > 0 {
						args = args[1:]
					}
				}
				i := int(name[4] - '0')
				if i >= 0 && i < len(args) {
					if av, ok := st.vals[args[i]]; ok && av.T != "" {
						return TV{T: av.T, S: goSType(args[i].Type())}, true
					} else if c, isC := args[i].(*ssa.Const); isC {
						if cv := vc.constVal(c); cv.T != "" {
							return TV{T: cv.T, S: goSType(c.Type())}, true
						}
					}
				}
			}
		}
		if (name == "_idx" || name == "_done") && vc.curInstr != nil {
			// innermost loop containing the current instruction: its range index
			var best *loopInfo
			for _, li := range vc.loops {
				if li.blocks[vc.curInstr.Block()] && (best == nil || len(li.blocks) < len(best.blocks)) {
					best = li
				}
			}
			if best != nil {
				for _, ins := range best.header.Instrs {
					if phi, ok := ins.(*ssa.Phi); ok && phi.Comment == "rangeindex" {
						if pv, ok := st.vals[phi]; ok {
							// inside the body the element being processed is phi+1
							if name == "_idx" {
								return TV{T: app("+", pv.T, "1"), S: stInt}, true
							}
							return TV{T: app("+", pv.T, "1"), S: stInt}, true
						}
					}
				}
			}
		}
		// search executed instructions for a DebugRef of that name (last one wins)
		var found ssa.Value
		// an address-taken variable (captured by a closure, or &x taken) lives in its cell
		for _, b := range vc.fn.Blocks {
			for _, ins := range b.Instrs {
				if al, ok := ins.(*ssa.Alloc); ok && al.Comment == name {
					if x, ok := st.vals[al]; ok {
						et := al.Type().(*types.Pointer).Elem()
						if !isPlainStruct(et) {
							s := sortOf(et)
							return TV{T: app("select", vc.hget(ce.heap, cellArr(s), arrSort(s)), x.T), S: goSType(et)}, true
						}
					}
				}
			}
		}
		// the value the variable holds at this point of the path (recorded while executing), if known
		if v, ok := st.names[name]; ok {
			if x, ok := st.vals[v]; ok && x.T != "" {
				if _, isAlloc := v.(*ssa.Alloc); !isAlloc {
					return TV{T: x.T, S: goSType(v.Type())}, true
				}
			} else if c, isC := v.(*ssa.Const); isC {
				if cv := vc.constVal(c); cv.T != "" {
					return TV{T: cv.T, S: goSType(c.Type())}, true
				}
			}
		}
		for _, b := range vc.fn.Blocks {
			for _, ins := range b.Instrs {
				if dr, ok := ins.(*ssa.DebugRef); ok && !dr.IsAddr {
					if obj := dr.Object(); obj != nil && obj.Name() == name {
						if _, ok := st.vals[dr.X]; ok {
							found = dr.X
						} else if _, isC := dr.X.(*ssa.Const); isC {
							found = dr.X
						}
					}
				}
				if al, ok := ins.(*ssa.Alloc); ok && al.Comment == name {
					if x, ok := st.vals[al]; ok {
						et := al.Type().(*types.Pointer).Elem()
						s := sortOf(et)
						return TV{T: app("select", vc.hget(ce.heap, cellArr(s), arrSort(s)), x.T), S: goSType(et)}, true
					}
				}
			}
		}
		if found != nil {
			v := vc.val(st, found)
			if v.T != "" {
				return TV{T: v.T, S: goSType(found.Type())}, true
			}
		}
		return TV{}, false
	}
	return env
}

func (vc *VC) ghostAssign(st *State, env *Env, target, value ast.Expr) {
	v := env.tr(value)
	if id, ok := target.(*ast.Ident); ok && vc.effective != nil {
		for _, gl := range vc.effective.GhostLocals {
			if gl.Name == id.Name {
				if st.glocals == nil {
					st.glocals = map[string]TV{}
				}
				st.glocals[id.Name] = v
				return
			}
		}
	}
	lvs := env.lvals(target)
	if len(lvs) != 1 {
		panic(specError{"ghost assignment to a multi-location target"})
	}
	lv := lvs[0]
	vc.locksetCheck(st, lv.Arr, lv.Idx, nil, "write")
	if lv.Idx == "" {
		vc.setHeap(st, lv.Arr, lv.Sort, v.T)
		return
	}
	cur := vc.hget(st.heap, lv.Arr, lv.Sort)
	vc.setHeap(st, lv.Arr, lv.Sort, app("store", cur, lv.Idx, v.T))
}

// siteGhost runs "ghost before|after call <callee>" statements and site assertions of the function under verification.
func (vc *VC) siteGhost(st *State, ci *calleeInfo, instr ssa.Instruction, before bool) {
	key := ci.key
	if cl, ok := instr.(ssa.CallInstruction); ok {
		// the same naming as the after-call hooks (calls through function values are "dynamic:<name>")
		if k := vc.calleeKeyOf(st, cl.Common()); strings.HasPrefix(k, "dynamic:") {
			vc.siteHooks(st, k, instr, before)
		}
	}
	vc.siteHooks(st, key, instr, before)
}

// calleeKeyOf names the callee of a call instruction for site hooks ("append" etc. for builtins).
func (vc *VC) calleeKeyOf(st *State, cc *ssa.CallCommon) string {
	if cc.IsInvoke() {
		return ifaceMethodKey(cc.Method)
	}
	switch v := cc.Value.(type) {
	case *ssa.Builtin:
		return v.Name()
	case *ssa.Function:
		return funcKey(v)
	case *ssa.MakeClosure:
		return funcKey(v.Fn.(*ssa.Function))
	}
	if x, ok := st.vals[cc.Value]; ok {
		if x.Fn != nil {
			return funcKey(x.Fn)
		}
		if x.Closure != nil {
			return funcKey(x.Closure.Fn.(*ssa.Function))
		}
	}
	return "dynamic:" + cc.Value.Name()
}

func (vc *VC) siteHooks(st *State, key string, instr ssa.Instruction, before bool) {
	if vc.contract == nil {
		return
	}
	vc.curInstr = instr
	match := func(pat string, ord int) bool {
		if i := strings.Index(pat, "("); i > 0 && strings.HasSuffix(pat, ")") && !strings.HasPrefix(pat, "(") {
			// name(arg): a call of name whose first argument is the current value of the local variable arg -
			// robust against other calls of the same function being added or removed (no ordinal needed)
			argName := pat[i+1 : len(pat)-1]
			pat = pat[:i]
			ci, ok := instr.(ssa.CallInstruction)
			if !ok || len(ci.Common().Args) == 0 {
				return false
			}
			ae, err := parser.ParseExpr(argName)
			if err != nil {
				return false
			}
			env := vc.fnEnvNames(st)
			var at Term
			func() {
				defer func() {
					if r := recover(); r != nil {
						if _, ok := r.(specError); !ok {
							panic(r)
						}
					}
				}()
				at = env.tr(ae).T
			}()
			if at == "" || at != vc.val(st, ci.Common().Args[0]).T {
				return false
			}
		}
		if strings.HasPrefix(pat, "@") {
			// @name: a call through the function value held by the parameter / variable "name"
			if key != "dynamic:"+pat[1:] {
				return false
			}
		} else if strings.HasSuffix(pat, "$") {
			// name$: the callee's key ends with name (GetSingleton$ does not match GetSingletonNames)
			if !strings.HasSuffix(key, pat[:len(pat)-1]) {
				return false
			}
		} else if !strings.Contains(key, pat) {
			return false
		}
		return ord == 0 || vc.staticOrdinal(instr) == ord
	}
	for _, a := range vc.contract.Asserts {
		if a.Before != before || !match(a.Callee, a.Ordinal) {
			continue
		}
		vc.hookFired["a:"+a.Callee+"#"+fmt.Sprint(a.Ordinal)+":"+a.Clause.Label] = true
		env := vc.fnEnvNames(st)
		g := vc.trClause(env, a.Clause)
		if !a.Clause.Free {
			vc.oblige(st, g, a.Clause.Label, "assert", vc.siteOf(instr), clauseProps(a.Clause, vc.props()), a.Clause.Src, "")
		} else {
			vc.usedTrusted[fmt.Sprintf("assumed at call site [%s] in %s: %s", a.Clause.Label, shortFuncKey(vc.key), a.Clause.Src)] = true
		}
		st.assume = append(st.assume, g)
	}
	for _, g := range vc.contract.Ghosts {
		if g.Callee == "@return" || g.Before != before || !match(g.Callee, g.Ordinal) {
			continue
		}
		vc.hookFired["g:"+g.Src] = true
		env := vc.fnEnvNames(st)
		vc.ghostAssign(st, env, g.Target, g.Value)
	}
}

// ---------- inlining of small helpers ----------

func (vc *VC) canInline(fn *ssa.Function) bool {
	return false
}

func (vc *VC) inlineCall(st *State, ci *calleeInfo, args []Val, instr ssa.Instruction) Val {
	vc.unsupported(instr, "inlining not implemented (%s)", ci.key)
	return Val{}
}

// ---------- loop frame: calls ----------

func (vc *VC) modOfCall(st *State, call ssa.CallInstruction, inLoop func(ssa.Value) bool, add func(string, Sort, Term, bool, bool)) {
	cc := call.Common()
	if _, ok := cc.Value.(*ssa.Builtin); ok {
		if cc.Value.Name() == "append" {
			es := sortOf(elemTypeOf(cc.Args[0].Type()))
			add(elemsArr(es), elemsSort(es), "", true, false)
			add("Tags", tagsSort, "", true, false)
		}
		if cc.Value.Name() == "delete" {
			mt := types.Unalias(cc.Args[0].Type()).Underlying().(*types.Map)
			ks := sortOf(mt.Key())
			inv := !inLoop(cc.Args[0])
			var base Term
			if inv {
				base = vc.val(st, cc.Args[0]).T
			}
			add(mapDomArr(ks, sortOf(mt.Elem())), mapDomSort(ks), base, inv, false)
		}
		return
	}
	var c *Contract
	var key string
	var fn *ssa.Function
	if cc.IsInvoke() {
		key = ifaceMethodKey(cc.Method)
	} else {
		switch v := cc.Value.(type) {
		case *ssa.Function:
			fn = v
		case *ssa.MakeClosure:
			fn = v.Fn.(*ssa.Function)
		}
		if fn != nil {
			key = funcKey(fn)
		} else {
			switch x := cc.Value.(type) {
			case *ssa.Parameter:
				key = vc.key + "#" + x.Name()
			case *ssa.FreeVar:
				key = vc.key + "#" + x.Name()
			}
			if vc.lookupContract(key) == nil {
				if n, ok := types.Unalias(cc.Value.Type()).(*types.Named); ok {
					key = "functype " + typeKey(n)
				}
			}
		}
	}
	c = vc.lookupContract(key)
	if c == nil {
		return // effect-free or reported as missing when executed
	}
	if c.Implement != "" && fn != nil {
		ikey := "(" + qualifyTypeName(c.Implement, c.Pkg, vc.w) + ")." + fn.Name()
		if ic := vc.lookupContract(ikey); ic != nil {
			c = mergeContracts(c, ic, "")
		}
	}
	if c.AssignAll {
		for n, s := range vc.arrays {
			if n != "top" {
				add(n, s, "", false, strings.HasPrefix(n, "GV_") || strings.HasPrefix(n, "Glob_"))
			}
		}
		return
	}
	if len(c.Assigns) == 0 {
		return
	}
	// Evaluate targets with arguments that are defined outside the loop; anything else makes the base varying.
	ci := &calleeInfo{key: key, contract: c, sig: cc.Signature(), fn: fn}
	allOutside := true
	_ = allOutside
	args := cc.Args
	dummy := func(v ssa.Value) TV {
		if !inLoop(v) {
			x := vc.val(st, v)
			if x.T != "" {
				return TV{T: x.T, S: goSType(v.Type())}
			}
		}
		if t, ok := vc.provisionalFieldLoad(st, v); ok {
			return TV{T: t, S: goSType(v.Type())}
		}
		allOutside = false
		return TV{T: vc.d.declConst("unknown_"+sortID(sortOf(v.Type())), sortOf(v.Type())), S: goSType(v.Type())}
	}
	if cc.IsInvoke() {
		r := dummy(cc.Value)
		ci.recv = &r
		ci.recvName = c.RecvName
	} else if fn != nil && fn.Signature.Recv() != nil {
		r := dummy(args[0])
		ci.recv = &r
		ci.recvName = fn.Signature.Recv().Name()
		if o := fn.Origin(); o != nil {
			ci.recvName = o.Signature.Recv().Name()
		}
		args = args[1:]
	} else if fn == nil {
		r := dummy(cc.Value)
		ci.recv = &r
		ci.recvName = "fn"
	}
	for _, a := range args {
		ci.args = append(ci.args, dummy(a))
	}
	if fn != nil {
		ci.tparams = instTypeParams(fn)
	}
	if mc, ok := cc.Value.(*ssa.MakeClosure); ok {
		ci.closure = mc
		for _, b := range mc.Bindings {
			ci.closureBind = append(ci.closureBind, dummy(b).T)
		}
	}
	var lvs []LV
	var anys []bool
	func() {
		defer func() {
			if r := recover(); r != nil {
				if _, ok := r.(specError); ok {
					allOutside = false
					return
				}
				panic(r)
			}
		}()
		env := vc.calleeEnv(ci, st.heap, st.heap)
		for _, t := range c.Assigns {
			for _, lv := range env.lvals(t.Expr) {
				lvs = append(lvs, lv)
				anys = append(anys, t.Any)
			}
		}
	}()
	for i, lv := range lvs {
		scalar := lv.Idx == "" && !anys[i] && (strings.HasPrefix(lv.Arr, "GV_") || strings.HasPrefix(lv.Arr, "Glob_"))
		if anys[i] || lv.Idx == "" {
			add(lv.Arr, lv.Sort, "", false, scalar)
		} else {
			// the index term may depend on in-loop values even when arguments are outside (conservative check)
			add(lv.Arr, lv.Sort, lv.Idx, !strings.Contains(lv.Idx, "unknown_"), false)
		}
	}
}

// ---------- goroutines (fork/join) ----------
//
// Only the shape "wg.Add(n); for ... { go closure(args) }; wg.Wait()" is supported. A go statement does not run the
// thread: it records the fork in ghost state (GV_Forks, per-closure argument arrays, wg.Forked). The thread body is
// verified separately against its thread contract. At wg.Wait() the parent (1) must show Added == Forked, (2) must
// show that the non-ghost, non-synchronised locations the threads may write are pairwise disjoint, and (3) may then
// assume every forked thread's postcondition.

func forkArgArr(fn *ssa.Function, name string) string {
	return "GV_ForkArg_" + sanitize(shortKey(funcKey(fn))) + "_" + sanitize(name)
}

func (vc *VC) execGo(st *State, g *ssa.Go) {
	mc, ok := g.Call.Value.(*ssa.MakeClosure)
	var fn *ssa.Function
	var binds []Term
	if ok {
		fn = mc.Fn.(*ssa.Function)
		for _, b := range mc.Bindings {
			binds = append(binds, vc.val(st, b).T)
		}
	} else if v := vc.val(st, g.Call.Value); v.Closure != nil {
		fn = v.Closure.Fn.(*ssa.Function)
		mc = v.Closure
		for _, b := range mc.Bindings {
			binds = append(binds, vc.val(st, b).T)
		}
	} else {
		vc.unsupported(g, "go statement on something other than a closure literal")
	}
	c := vc.lookupContract(funcKey(fn))
	if c == nil || !c.Thread {
		vc.unsupported(g, "missing-contract: go statement needs a thread contract for %s", funcKey(fn))
	}
	site := vc.siteOf(g)
	forks := vc.hget(st.heap, "GV_Forks", "Int")
	ci := &calleeInfo{key: funcKey(fn), contract: c, sig: fn.Signature, fn: fn, closure: mc, closureBind: binds}
	for i, a := range g.Call.Args {
		v := vc.val(st, a)
		ci.args = append(ci.args, vc.tvOf(v, a.Type()))
		arr := forkArgArr(fn, fn.Params[i].Name())
		s := sortOf(fn.Params[i].Type())
		cur := vc.hget(st.heap, arr, arrSort(s))
		vc.setHeap(st, arr, arrSort(s), app("store", cur, forks, v.T))
	}
	env := vc.calleeEnv(ci, st.heap, st.heap)
	env.vars["tid"] = TV{T: forks, S: stInt}
	for _, r := range c.Requires {
		gl := vc.trClause(env, r)
		vc.oblige(st, gl, r.Label, "requires", site, clauseProps(r, vc.props()), r.Src, ci.key)
		st.assume = append(st.assume, gl)
	}
	for _, li := range c.LockInvs {
		gl := vc.trClause(env, li.Clause)
		vc.oblige(st, gl, "lock-invariant-at-fork:"+li.Clause.Label, "thread", site, clauseProps(li.Clause, vc.props()), li.Clause.Src, ci.key)
	}
	if vc.effective != nil && vc.effective.Terminates && !calleeTerminates(c) {
		// the parent waits for its threads: it only terminates if they do
		vc.oblige(st, "false", "terminates:thread "+shortFuncKey(ci.key), "termination", site, vc.props(), "the forked thread is known to terminate (its contract says terminates)", ci.key)
	}
	if c.ThreadWG != nil {
		wg := env.tr(c.ThreadWG)
		arr := vc.hget(st.heap, "G_sync_WaitGroup_Forked", arrSort("Int"))
		vc.setHeap(st, "G_sync_WaitGroup_Forked", arrSort("Int"), app("store", arr, wg.T, app("+", app("select", arr, wg.T), "1")))
	}
	vc.setHeap(st, "GV_Forks", "Int", app("+", forks, "1"))
	st.forked = append(st.forked, g)
}

// joinThreads is called after (*sync.WaitGroup).Wait returned.
func (vc *VC) joinThreads(st *State, instr ssa.Instruction) {
	site := vc.siteOf(instr)
	// threads with an id below the ghost variable Joined have been joined already (by an earlier Wait, possibly in an
	// earlier iteration of a loop that was cut); threads forked by this function have ids from its entry value of Forks
	entryForks := vc.d.declConst("GV_Forks", "Int")
	joined := vc.hget(st.heap, "GV_Joined", "Int")
	base := app("ite", app(">=", joined, entryForks), joined, entryForks)
	forks := vc.hget(st.heap, "GV_Forks", "Int")
	// global invariant of the two engine-maintained counters: Joined is only ever set to a value Forks had
	st.assume = append(st.assume, app("<=", joined, forks))
	// all go sites of this function (they may be inside loops that were cut: use the static list)
	seen := map[*ssa.Function]bool{}
	for _, b := range vc.fn.Blocks {
		for _, ins := range b.Instrs {
			g, ok := ins.(*ssa.Go)
			if !ok {
				continue
			}
			mc, ok := g.Call.Value.(*ssa.MakeClosure)
			if !ok {
				continue
			}
			fn := mc.Fn.(*ssa.Function)
			if seen[fn] {
				continue
			}
			seen[fn] = true
			c := vc.lookupContract(funcKey(fn))
			if c == nil || !c.Thread {
				continue
			}
			var binds []Term
			for _, bv := range mc.Bindings {
				if x, ok := st.vals[bv]; ok && x.T != "" {
					binds = append(binds, x.T)
				} else {
					vc.unsupported(instr, "join: closure binding %s is not defined outside the forking loop", bv.Name())
				}
			}
			pre := st.heap.clone()
			k := "jk"
			mkEnv := func(heap, old *Heap, kv Term) *Env {
				ci := &calleeInfo{key: funcKey(fn), contract: c, sig: fn.Signature, fn: fn, closure: mc, closureBind: binds}
				for _, p := range fn.Params {
					s := sortOf(p.Type())
					ci.args = append(ci.args, TV{T: app("select", vc.hget(pre, forkArgArr(fn, p.Name()), arrSort(s)), kv), S: goSType(p.Type())})
				}
				e := vc.calleeEnv(ci, heap, old)
				e.vars["tid"] = TV{T: kv, S: stInt}
				return e
			}
			inRange := and(app("<=", base, k), app("<", k, forks))
			// (2) disjointness of real memory written by different threads
			e1 := mkEnv(pre, pre, "jk")
			e2 := mkEnv(pre, pre, "jl")
			type tgt struct {
				lv      LV
				perTid  bool
				ghost   bool
				src     string
				any     bool
			}
			var tgts []tgt
			for _, t := range c.Assigns {
				l1 := e1.lvals(t.Expr)
				l2 := e2.lvals(t.Expr)
				for i, lv := range l1 {
					ghost := strings.HasPrefix(lv.Arr, "GV_") || strings.HasPrefix(lv.Arr, "G_")
					if gv := vc.specs.GhostVars[strings.TrimPrefix(lv.Arr, "GV_")]; gv != nil && gv.Region {
						ghost = false
					}
					tgts = append(tgts, tgt{lv: lv, perTid: lv.Idx == "jk", ghost: ghost, src: t.Src, any: t.Any})
					if ghost || t.Guard != nil {
						// ghost state is not memory; guarded locations are synchronised by their mutex (lockset
						// obligations in the thread body)
						continue
					}
					var goal Term
					if t.Any || lv.Idx == "" {
						goal = app("<=", app("-", forks, base), "1")
					} else {
						goal = fmt.Sprintf("(forall ((jk Int) (jl Int)) (=> (and %s %s (not (= jk jl))) (not (= %s %s))))", inRange, strings.ReplaceAll(inRange, "jk", "jl"), lv.Idx, l2[i].Idx)
					}
					vc.oblige(st, goal, "thread-frames-disjoint:"+t.Src, "thread", site, clauseProps(&Clause{}, vc.props()),
						"no two threads forked here write the same location "+t.Src, funcKey(fn))
				}
			}
			// (3) havoc what the threads assign, then assume every thread's postcondition
			var sharedSyms []string
			for _, tg := range tgts {
				if tg.lv.Idx != "" && !tg.any && !strings.Contains(tg.lv.Idx, "jk") {
					// the same single location for every thread (e.g. the WaitGroup's counter): its final value is the
					// combined effect of all threads, which no single thread's postcondition describes
					cur := vc.hget(st.heap, tg.lv.Arr, tg.lv.Sort)
					vc.setHeap(st, tg.lv.Arr, tg.lv.Sort, app("store", cur, tg.lv.Idx, vc.d.freshConst("joined", arraySorts(tg.lv.Sort)[1])))
					sharedSyms = append(sharedSyms, st.heap.cur[tg.lv.Arr])
					continue
				}
				vc.havocHeap(st, tg.lv.Arr, tg.lv.Sort)
			}
			post := mkEnv(st.heap, pre, k)
			var ens []Term
			for _, en := range c.Ensures {
				t := vc.trClause(post, en)
				skip := false
				for _, sym := range sharedSyms {
					if strings.Contains(t, sym) {
						skip = true // speaks about a location shared by all threads: not composable per thread
					}
				}
				if !skip {
					ens = append(ens, t)
				}
			}
			st.assume = append(st.assume, fmt.Sprintf("(forall ((jk Int)) (=> %s %s))", inRange, and(ens...)))
			// every mutex is free after the join (mutex-released-at-thread-end), so its invariant holds
			for _, li := range c.LockInvs {
				st.assume = append(st.assume, vc.trClause(mkEnv(st.heap, pre, base), li.Clause))
			}
			// per-thread ghost slots of other threads are untouched
			for _, tg := range tgts {
				if tg.perTid {
					newA := vc.hget(st.heap, tg.lv.Arr, tg.lv.Sort)
					oldA := vc.hget(pre, tg.lv.Arr, tg.lv.Sort)
					st.assume = append(st.assume, fmt.Sprintf("(forall ((jk Int)) (! (=> (not %s) (= (select %s jk) (select %s jk))) :pattern ((select %s jk))))", inRange, newA, oldA, newA))
				}
			}
		}
	}
	st.joinBase = forks
	vc.setHeap(st, "GV_Joined", "Int", forks)
}

// staticOrdinal: position of a call among the calls to the same callee in this function, in source order.
func (vc *VC) staticOrdinal(instr ssa.Instruction) int {
	if vc.callOrd == nil {
		vc.callOrd = map[ssa.Instruction]int{}
		type item struct {
			ins ssa.Instruction
			key string
		}
		var items []item
		for _, b := range vc.fn.Blocks {
			for _, ins := range b.Instrs {
				if ci, ok := ins.(ssa.CallInstruction); ok {
					cc := ci.Common()
					key := ""
					if cc.IsInvoke() {
						key = ifaceMethodKey(cc.Method)
					} else {
						switch v := cc.Value.(type) {
						case *ssa.Builtin:
							key = v.Name()
						case *ssa.Function:
							key = funcKey(v)
						case *ssa.MakeClosure:
							key = funcKey(v.Fn.(*ssa.Function))
						default:
							key = "dynamic:" + cc.Value.Name()
						}
					}
					items = append(items, item{ins, key})
				}
			}
		}
		sort.SliceStable(items, func(i, j int) bool { return items[i].ins.Pos() < items[j].ins.Pos() })
		count := map[string]int{}
		for _, it := range items {
			count[it.key]++
			vc.callOrd[it.ins] = count[it.key]
		}
	}
	return vc.callOrd[instr]
}


// maplenFun declares the cardinality function of key sets (len of a Go map, card(...) in specs).
func (vc *VC) maplenFun(ks Sort) string {
	fn := "maplen_" + sortID(ks)
	if vc.d.seen["ax_"+fn] {
		return fn
	}
	vc.d.seen["ax_"+fn] = true
	vc.d.declFun(fn, []Sort{fmt.Sprintf("(Array %s Bool)", ks)}, "Int")
	vc.d.axiom(fmt.Sprintf("(forall ((m (Array %s Bool))) (! (>= (%s m) 0) :pattern ((%s m))))", ks, fn, fn))
	vc.d.axiom(fmt.Sprintf("(forall ((m (Array %s Bool)) (k %s)) (! (=> (select m k) (> (%s m) 0)) :pattern ((%s m) (select m k))))", ks, ks, fn, fn))
	vc.d.axiom(fmt.Sprintf("(= (%s ((as const (Array %s Bool)) false)) 0)", fn, ks))
	// adding a new element increases the cardinality by one
	vc.d.axiom(fmt.Sprintf("(forall ((m (Array %s Bool)) (k %s)) (! (=> (not (select m k)) (= (%s (store m k true)) (+ (%s m) 1))) :pattern ((%s (store m k true)))))", ks, ks, fn, fn, fn))
	return fn
}


// selectsUnexportedField: the target expression goes through a field whose name is unexported (x.m.SDom).
func selectsUnexportedField(e ast.Expr) bool {
	found := false
	ast.Inspect(e, func(n ast.Node) bool {
		if sel, ok := n.(*ast.SelectorExpr); ok {
			if _, inner := sel.X.(*ast.SelectorExpr); inner || true {
				// only intermediate selections count: the final selector names the (ghost or real) field assigned
			}
			if isel, ok := sel.X.(*ast.SelectorExpr); ok {
				if nm := isel.Sel.Name; nm != "" && !ast.IsExported(nm) {
					found = true
				}
			}
		}
		return true
	})
	return found
}
