package special_inject_condition

// Demonstration of F-C10: the holder itself takes part in the candidate selection of a single-valued point and is only
// removed afterwards, so whether start-up succeeds depends on the (map) order in which candidates are enumerated.

import (
	"testing"

	"github.com/go-kid/ioc"
	"github.com/go-kid/ioc/app"
)

type fc10S interface{ fc10() }

type fc10Holder struct {
	Dep fc10S `wire:""`
}

func (h *fc10Holder) fc10() {}

type fc10Other struct{}

func (o *fc10Other) fc10() {}

func TestFindingC10OutcomeIndependentOfCandidateOrder(t *testing.T) {
	ok, failed := 0, 0
	for i := 0; i < 40; i++ {
		h := &fc10Holder{}
		_, err := ioc.Run(app.LogError, app.SetComponents(h, &fc10Other{}))
		if err != nil {
			failed++
			continue
		}
		ok++
		if _, isOther := h.Dep.(*fc10Other); !isOther {
			t.Fatalf("run %d: field received %T", i, h.Dep)
		}
	}
	if ok != 0 && failed != 0 {
		t.Fatalf("same components, same configuration: start-up succeeded %d times and failed %d times (the holder itself competes with the only real candidate)", ok, failed)
	}
	if failed != 0 {
		t.Fatalf("start-up failed although a candidate other than the holder exists")
	}
}
