package post_processor

// Demonstration of F-C03 (known finding, not repaired): a holder that is still in creation keeps a superseded version.
// Component S has a field of an interface type it implements itself. A post-processor hands out a proxy when the
// early reference of S is requested (so the field receives the proxy, which is not filtered as "self" because it is a
// different object) and a DIFFERENT proxy after initialization. The only holder of the early version is S itself,
// which is still in creation when the stale-version check runs, so start-up succeeds with mixed versions.

import (
	"testing"

	"github.com/go-kid/ioc"
	"github.com/go-kid/ioc/app"
	"github.com/go-kid/ioc/component_definition"
)

type fc03Svc interface{ Who() string }

type fc03Self struct {
	Me fc03Svc `wire:""`
}

func (s *fc03Self) Who() string { return "raw" }

type fc03Proxy struct {
	tag   string
	inner fc03Svc
}

func (p *fc03Proxy) Who() string { return p.tag }

type fc03Wrapper struct{}

func (w *fc03Wrapper) PostProcessBeforeInitialization(c any, n string) (any, error) { return c, nil }
func (w *fc03Wrapper) PostProcessAfterInitialization(c any, n string) (any, error) {
	if s, ok := c.(*fc03Self); ok {
		return &fc03Proxy{tag: "final", inner: s}, nil
	}
	return c, nil
}
func (w *fc03Wrapper) PostProcessBeforeInstantiation(m *component_definition.Meta, n string) (any, error) {
	return nil, nil
}
func (w *fc03Wrapper) PostProcessAfterInstantiation(c any, n string) (bool, error) { return false, nil }
func (w *fc03Wrapper) PostProcessProperties(ps []*component_definition.Property, c any, n string) ([]*component_definition.Property, error) {
	return nil, nil
}
func (w *fc03Wrapper) GetEarlyBeanReference(c any, n string) (any, error) {
	if s, ok := c.(*fc03Self); ok {
		return &fc03Proxy{tag: "early", inner: s}, nil
	}
	return c, nil
}

func TestFindingC03HolderInCreationKeepsSupersededVersion(t *testing.T) {
	s := &fc03Self{}
	a, err := ioc.Run(app.LogError, app.SetComponents(s, &fc03Wrapper{}))
	if err != nil {
		t.Logf("start-up failed (%v): allowed by the property", err)
		return
	}
	var published fc03Svc
	for _, c := range mustComponents(t, a) {
		if p, ok := c.(*fc03Proxy); ok {
			published = p
		}
	}
	if s.Me == nil || published == nil {
		t.Skipf("scenario did not materialise: field=%v published=%v", s.Me, published)
	}
	if s.Me != published {
		t.Fatalf("start-up succeeded with mixed versions: the holder's field sees %q (%p) but the container published %q (%p)",
			s.Me.Who(), s.Me, published.Who(), published)
	}
}

func mustComponents(t *testing.T, a *app.App) []any {
	cs, err := a.GetComponents()
	if err != nil {
		t.Fatal(err)
	}
	return cs
}
