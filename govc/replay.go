package main

import (
	"bytes"
	"context"
	"fmt"
	"os"
	"os/exec"
	"path/filepath"
	"strings"
	"time"
)

// findModel searches a witness for a failed obligation: the same script, handed to cvc5's finite model finder
// (uninterpreted sorts get small finite domains; the proof obligations themselves stay unbounded).
func findModel(script string, timeoutS int) (string, bool) {
	dir, err := os.MkdirTemp("", "govc-model-")
	if err != nil {
		return err.Error(), false
	}
	defer os.RemoveAll(dir)
	file := filepath.Join(dir, "m.smt2")
	body := "(set-option :produce-models true)\n(set-logic ALL)\n" + script + "(get-model)\n"
	os.WriteFile(file, []byte(body), 0o644)
	ctx, cancel := context.WithTimeout(context.Background(), time.Duration(timeoutS+5)*time.Second)
	defer cancel()
	cmd := exec.CommandContext(ctx, "cvc5", "--lang=smt2", fmt.Sprintf("--tlimit=%d", timeoutS*1000), "--finite-model-find", file)
	var out bytes.Buffer
	cmd.Stdout = &out
	cmd.Stderr = &out
	_ = cmd.Run()
	text := out.String()
	first := strings.TrimSpace(strings.SplitN(text, "\n", 2)[0])
	if first == "sat" {
		return text, true
	}
	return text, false
}

// tryReplay concretises a model for the obligation's replay group and runs it against the real code.
// Returns nil when no driver exists for the obligation.
func tryReplay(o *options, name string, ob *Obligation, model string, base string) map[string]any {
	for _, d := range replayDrivers {
		if d.match(name, ob) {
			return d.run(o, name, ob, model, base)
		}
	}
	return nil
}

type replayDriver struct {
	group string
	match func(name string, ob *Obligation) bool
	run   func(o *options, name string, ob *Obligation, model string, base string) map[string]any
}

var replayDrivers []replayDriver
