package main

import (
	"fmt"
	"os"
	"path/filepath"
	"regexp"
	"sort"
	"strings"

	"golang.org/x/tools/go/ssa"
)

// Census obligations: a structural companion of frame conditions. A frame clause bounds what the functions UNDER
// CONTRACT write; a census makes sure there is no writer outside the contracts: every call site of the listed
// primitives (e.g. reflect.Value.Set*) in non-test repository code must sit in a function that is verified against a
// contract, or has a trusted contract (reported as trusted), or is explicitly listed as off-path with a reason.
// File /verif/contracts/census.txt, lines:
//   census <property> <name> <regexp over callee keys>
//   allow <name> <regexp over function keys> : <reason>

type censusSpec struct {
	prop, name string
	callee     *regexp.Regexp
	allow      []*regexp.Regexp
	reasons    []string
}

func loadCensus(verif string) ([]*censusSpec, error) {
	b, err := os.ReadFile(filepath.Join(verif, "contracts", "census.txt"))
	if err != nil {
		return nil, nil
	}
	var out []*censusSpec
	byName := map[string]*censusSpec{}
	for i, ln := range strings.Split(string(b), "\n") {
		ln = strings.TrimSpace(ln)
		if ln == "" || strings.HasPrefix(ln, "#") {
			continue
		}
		f := strings.Fields(ln)
		switch f[0] {
		case "census":
			if len(f) < 4 {
				return nil, fmt.Errorf("census.txt:%d: census <property> <name> <regexp>", i+1)
			}
			re, err := regexp.Compile(f[3])
			if err != nil {
				return nil, fmt.Errorf("census.txt:%d: %v", i+1, err)
			}
			c := &censusSpec{prop: f[1], name: f[2], callee: re}
			out = append(out, c)
			byName[c.name] = c
		case "allow":
			if len(f) < 3 || byName[f[1]] == nil {
				return nil, fmt.Errorf("census.txt:%d: allow <name> <regexp> : reason", i+1)
			}
			re, err := regexp.Compile(f[2])
			if err != nil {
				return nil, fmt.Errorf("census.txt:%d: %v", i+1, err)
			}
			reason := ""
			if j := strings.Index(ln, " : "); j >= 0 {
				reason = strings.TrimSpace(ln[j+3:])
			}
			byName[f[1]].allow = append(byName[f[1]].allow, re)
			byName[f[1]].reasons = append(byName[f[1]].reasons, reason)
		}
	}
	return out, nil
}

func runCensus(o *options, w *World, specs *Specs) (*funcResult, error) {
	cs, err := loadCensus(o.verif)
	if err != nil {
		return nil, err
	}
	var res *funcResult
	for _, c := range cs {
		if c.prop != o.prop {
			continue
		}
		if res == nil {
			res = &funcResult{Key: "census"}
		}
		fns := w.repoFunctions()
		type hit struct{ site, callee string }
		writers := map[string][]hit{}
		for key, fn := range fns {
			if fn.Pos().IsValid() && strings.HasSuffix(w.Fset.Position(fn.Pos()).Filename, "_test.go") {
				continue
			}
			for _, b := range fn.Blocks {
				for _, ins := range b.Instrs {
					ci, ok := ins.(ssa.CallInstruction)
					if !ok {
						continue
					}
					cc := ci.Common()
					k := ""
					if cc.IsInvoke() {
						k = ifaceMethodKey(cc.Method)
					} else if f, ok := cc.Value.(*ssa.Function); ok {
						k = funcKey(f)
					}
					if k != "" && c.callee.MatchString(k) {
						writers[key] = append(writers[key], hit{posString(w, ins.Pos()), k})
					}
				}
			}
		}
		var keys []string
		for k := range writers {
			keys = append(keys, k)
		}
		sort.Strings(keys)
		for _, k := range keys {
			// closures count with their enclosing function
			root := k
			if i := strings.Index(root, "$"); i >= 0 {
				root = root[:i]
			}
			status, how := "failed", "no contract and not listed as off-path"
			if ct := specs.Contracts[k]; ct != nil && !ct.Trusted {
				status, how = "unsat", "verified against its contract"
			} else if ct := specs.Contracts[root]; ct != nil && !ct.Trusted {
				status, how = "unsat", "inside a function verified against its contract"
			} else if ct := specs.Contracts[root]; ct != nil && ct.Trusted {
				status, how = "unsat", "trusted contract"
				res.Trust = append(res.Trust, "trusted "+shortFuncKey(root))
			} else {
				for i, re := range c.allow {
					if re.MatchString(k) {
						status, how = "unsat", "listed off-path: "+c.reasons[i]
						res.Trust = append(res.Trust, fmt.Sprintf("census %s: %s is outside the contracts (%s)", c.name, shortFuncKey(k), c.reasons[i]))
						break
					}
				}
			}
			var sites []string
			for _, h := range writers[k] {
				sites = append(sites, h.site+" "+shortFuncKey(h.callee))
			}
			res.Obls = append(res.Obls, &Obligation{Func: k, Label: "census:" + c.name, Kind: "census", Site: writers[k][0].site, Props: []string{c.prop},
				Clause: "every call of " + c.callee.String() + " is in a function under contract or listed off-path; here: " + strings.Join(sites, "; "),
				Status: status, Solver: "census", Output: how})
		}
	}
	return res, nil
}
