package main

import (
	"fmt"
	"go/ast"
	"go/parser"
	"go/types"
	"os"
	"path/filepath"
	"regexp"
	"sort"
	"strconv"
	"strings"

	"golang.org/x/tools/go/packages"
)

// Clause is one labelled requires/ensures/invariant.
type Clause struct {
	Label string
	Expr  ast.Expr
	Src   string
	Props []string // properties this clause is claimed for (defaults to the contract's)
	File  string
	Line  int
	// Known-finding residual: when non-nil the obligation discharged is (Expr || Witness)
	Free bool // "free" ensures: assumed at call sites, not checked on the body (only allowed with trusted)
	Pkg  *packages.Package
	AtCreation bool // closure precondition over captured variables, checked where the closure is created
}

type AssignTarget struct {
	Any   bool     // any(Field): whole field array may change
	Expr  ast.Expr // x.f, or ghost global name, or Elems(s)
	Src   string
	Fresh bool
	Guard ast.Expr // non-nil: the location is shared between threads and only accessed while holding this mutex
}

type LoopSpec struct {
	Ordinal    int
	Invariants []*Clause
	Decreases  ast.Expr
	DecSrc     string
	Assigns    []AssignTarget // optional explicit loop frame
	HasAssigns bool
}

type GhostUpdate struct {
	Target ast.Expr
	Value  ast.Expr
	Src    string
}

type Contract struct {
	Key       string
	Pkg       *packages.Package // package whose scope resolves names
	Props     []string
	Trusted   bool
	Pure      bool // result is a function of the arguments (and heap); usable in specs
	Inline    bool
	NoSafety  bool
	Requires  []*Clause
	Ensures   []*Clause
	Assigns   []AssignTarget
	AssignAll bool // assigns everything (havoc whole heap) - for unknown callbacks
	Loops     map[int]*LoopSpec
	Implement string // interface key whose method contract is inherited
	RecvName  string // receiver name used in interface method contracts (default "self")
	ParamName []string
	Lets      []LetDef
	File      string
	Line      int
	IsMethod  bool // interface-level contract
	Closures  map[int][]GhostUpdate // ghost updates at MakeClosure ordinal k
	Ghosts    []GhostStmt
	Thread    bool
	Panics     bool // the function's job is to panic: an explicit panic statement ends the path and carries no unreachability obligation (normal returns still owe the postconditions, so `ensures false` says "never returns")
	Terminates bool // every loop of the function needs a variant (or is a range loop); every callee terminates
	Decreases  []*Clause // recursion measure: a lexicographic tuple of integers (booleans count as 0/1), see term.go
	Atomic      bool       // trusted primitive that takes effect atomically (one linearization point)
	Linearizable bool      // verified under interference: see linear.go
	Shared      []AssignTarget // the shared abstract state other threads may change between primitive calls
	ObjInvs     []*Clause  // object invariants: assumed at entry, proved at every return
	GhostLocals []GhostVar // function-local ghost variables (not part of any frame): written by ghost hooks, read by clauses
	IterParam   string     // iterates <param> over <dom>, <val>: the callee calls that function argument once per entry
	IterDom     ast.Expr
	IterVal     ast.Expr
	Iterations  map[int][]*Clause // caller side: iteration k invariant ...
	ThreadWG  ast.Expr // the WaitGroup whose Done the thread calls exactly once
	GhostTags []string
	Probes    []ProbeDef
	Stable     []ast.Expr // expressions over captured variables whose value at callback time equals the value at creation
	Callback   string   // interface method key this closure is handed out as (behavioural subtyping is checked at creation)
	CallbackAs ast.Expr // the named function type through which it becomes that interface
	Replay    string // name of the replay driver under /verif/replay for obligations of this function
	Asserts   []*SiteAssert
	ifaceRecv string
	ifacePkg  *Contract
	LockInvs       []LockInv
	ifaceAssigns   []AssignTarget
	ifaceAssignAll bool
	hasIfaceFrame  bool
}

// SiteAssert: an assertion/assumption keyed to a call site in the body ("at call <callee-substring> #k").
type SiteAssert struct {
	Callee  string
	Ordinal int
	Before  bool
	Clause  *Clause
}

// LockInv: an invariant over the locations guarded by a mutex; it holds whenever the mutex is free.
type LockInv struct {
	Mu     ast.Expr
	Clause *Clause
}

type GhostStmt struct {
	// ghost update executed when a call to Callee (substring match on callee key) returns; ordinal k-th such call (0 = all)
	Callee  string
	Ordinal int
	Before  bool
	Target  ast.Expr
	Value   ast.Expr
	Src     string
}

// ProbeDef names an entry-state expression whose model value is extracted when an obligation of the function fails
// (input to the replay driver). With IndexVar set it expands to N probes name_0 .. name_{N-1}.
type ProbeDef struct {
	Name     string
	IndexVar string
	N        int
	Expr     ast.Expr
	Src      string
}

type LetDef struct {
	Name string
	Expr ast.Expr
	Src  string
}

type SpecFunc struct {
	Name    string
	Params  []SpecParam
	Result  ast.Expr // spec type
	Body    ast.Expr
	Src     string
	Pkg     *packages.Package
	Opaque  bool // uninterpreted (no body)
	Defined bool // uninterpreted symbol plus a definitional axiom (heap-independent bodies only): keeps terms small
	File    string
	Line    int
	TwoHeap bool
}

type SpecParam struct {
	Name string
	Type ast.Expr
}

type GhostField struct {
	Owner   string // type key (pkg.T)
	Name    string
	Type    ast.Expr
	Pkg     *packages.Package
	OwnerTy types.Type
}

type GhostVar struct {
	Name   string
	Type   ast.Expr
	Pkg    *packages.Package
	Region bool // stands for real memory (an abstract region): counts as memory in thread-frame disjointness
}

type Binding struct {
	Concrete string // type key of the concrete (pointer) type
	RecvName string
	Iface    string // interface type key
	Field    string // ghost field name on the interface
	Expr     ast.Expr
	Pkg      *packages.Package
	Src      string
	IndexVar  string     // pointwise binding of a map-typed model field: Field[IndexVar] = Expr
	Footprint []ast.Expr // locations the bound expression depends on (defaults to the expression itself)
}

type Axiom struct {
	Label string
	Expr  ast.Expr
	Src   string
	Pkg   *packages.Package
	Lemma bool // proved rather than assumed
	Props []string
	File  string
	Line  int
	Hyps  []ast.Expr
}

// Frame is a named list of assignable locations (a macro usable in assigns clauses): frame Name(params) = t1, t2
type Frame struct {
	Name    string
	Params  []string
	Targets []AssignTarget
	Pkg     *packages.Package
}

type Specs struct {
	Frames      map[string]*Frame
	Contracts   map[string]*Contract
	SpecFuncs   map[string]*SpecFunc
	GhostFields map[string]*GhostField // key: ownerKey + "." + name
	GhostByName map[string][]*GhostField
	GhostVars   map[string]*GhostVar
	Bindings    []*Binding
	Axioms      []*Axiom
	Files       []string
	TrustedPure []*regexp.Regexp // callee keys treated as effect-free with unconstrained results
	TrustedPureSrc []string
	TerminationProps []string // "termination property Cxx": obligations of kind termination are (also) claimed for these
}

func newSpecs() *Specs {
	return &Specs{Frames: map[string]*Frame{}, Contracts: map[string]*Contract{}, SpecFuncs: map[string]*SpecFunc{}, GhostFields: map[string]*GhostField{},
		GhostByName: map[string][]*GhostField{}, GhostVars: map[string]*GhostVar{}}
}

var labelRe = regexp.MustCompile(`^\[([A-Za-z0-9_:@.\-]+)\]\s*`)

// specLines extracts //@ lines (joined over "//@ |" continuations) from a file.
type specLine struct {
	text string
	line int
}

func readSpecLines(path string) ([]specLine, error) {
	data, err := os.ReadFile(path)
	if err != nil {
		return nil, err
	}
	var out []specLine
	for i, raw := range strings.Split(string(data), "\n") {
		s := strings.TrimSpace(raw)
		if !strings.HasPrefix(s, "//@") {
			continue
		}
		s = strings.TrimSpace(strings.TrimPrefix(s, "//@"))
		if s == "" {
			continue
		}
		if strings.HasPrefix(s, "|") {
			if len(out) == 0 {
				return nil, fmt.Errorf("%s:%d: continuation without a clause", path, i+1)
			}
			out[len(out)-1].text += " " + strings.TrimSpace(s[1:])
			continue
		}
		// strip trailing "// comment" only when preceded by two spaces (keep simple)
		out = append(out, specLine{text: s, line: i + 1})
	}
	return out, nil
}

func parseExprAt(src, file string, line int) (ast.Expr, error) {
	e, err := parser.ParseExpr(src)
	if err != nil {
		return nil, fmt.Errorf("%s:%d: cannot parse %q: %v", file, line, src, err)
	}
	return e, nil
}

func parseClause(rest, file string, line int) (*Clause, error) {
	c := &Clause{File: file, Line: line}
	if m := labelRe.FindStringSubmatch(rest); m != nil {
		c.Label = m[1]
		rest = rest[len(m[0]):]
	}
	// optional per-clause property list: {C01 C02}
	if strings.HasPrefix(rest, "{") {
		end := strings.Index(rest, "}")
		if end > 0 {
			c.Props = strings.Fields(rest[1:end])
			rest = strings.TrimSpace(rest[end+1:])
		}
	}
	if c.Label == "" {
		c.Label = fmt.Sprintf("L%d", line)
	}
	e, err := parseExprAt(rest, file, line)
	if err != nil {
		return nil, err
	}
	c.Expr = e
	c.Src = rest
	return c, nil
}

func splitTopLevel(s string, sep byte) []string {
	var out []string
	depth := 0
	start := 0
	inStr := false
	for i := 0; i < len(s); i++ {
		ch := s[i]
		if inStr {
			if ch == '\\' {
				i++
			} else if ch == '"' {
				inStr = false
			}
			continue
		}
		switch ch {
		case '"':
			inStr = true
		case '(', '[', '{':
			depth++
		case ')', ']', '}':
			depth--
		default:
			if ch == sep && depth == 0 {
				out = append(out, strings.TrimSpace(s[start:i]))
				start = i + 1
			}
		}
	}
	if t := strings.TrimSpace(s[start:]); t != "" {
		out = append(out, t)
	}
	return out
}

func parseAssigns(rest, file string, line int) ([]AssignTarget, bool, error) {
	var out []AssignTarget
	if strings.TrimSpace(rest) == "nothing" || strings.TrimSpace(rest) == "" {
		return nil, false, nil
	}
	if strings.TrimSpace(rest) == "everything" {
		return nil, true, nil
	}
	for _, part := range splitTopLevel(rest, ',') {
		e, err := parseExprAt(part, file, line)
		if err != nil {
			return nil, false, err
		}
		t := AssignTarget{Expr: e, Src: part}
		if call, ok := e.(*ast.CallExpr); ok {
			if id, ok := call.Fun.(*ast.Ident); ok && id.Name == "any" && len(call.Args) == 1 {
				t.Any = true
				t.Expr = call.Args[0]
			}
		}
		out = append(out, t)
	}
	return out, false, nil
}

// loadSpecFile parses one contract/spec file. pkg resolves unqualified names; for trusted files it is nil until a
// "package <path>" directive is seen.
func (s *Specs) loadSpecFile(w *World, path string, pkg *packages.Package, trustedFile bool) error {
	lines, err := readSpecLines(path)
	if err != nil {
		return err
	}
	s.Files = append(s.Files, path)
	var cur *Contract
	fail := func(l specLine, f string, a ...any) error {
		return fmt.Errorf("%s:%d: %s", path, l.line, fmt.Sprintf(f, a...))
	}
	for _, l := range lines {
		word, rest := l.text, ""
		if i := strings.IndexAny(l.text, " \t"); i >= 0 {
			word, rest = l.text[:i], strings.TrimSpace(l.text[i+1:])
		}
		switch word {
		case "package":
			p := w.AllPkgs[rest]
			if p == nil {
				return fail(l, "unknown package %q", rest)
			}
			pkg = p
			cur = nil
		case "func", "method":
			if pkg == nil {
				return fail(l, "no package in scope")
			}
			key := rest
			// unqualified keys are relative to pkg: F, (*T).M, (T).M
			key = qualifyKey(key, pkg.PkgPath)
			if s.Contracts[key] != nil {
				return fail(l, "duplicate contract for %s", key)
			}
			cur = &Contract{Key: key, Pkg: pkg, Loops: map[int]*LoopSpec{}, File: path, Line: l.line, IsMethod: word == "method", RecvName: "self",
				Closures: map[int][]GhostUpdate{}}
			if trustedFile {
				cur.Trusted = true
			}
			s.Contracts[key] = cur
		case "functype":
			// contract of calls through values of a named function type
			if pkg == nil {
				return fail(l, "no package in scope")
			}
			key := "functype " + qualifyTypeName(rest, pkg, w)
			cur = &Contract{Key: key, Pkg: pkg, Loops: map[int]*LoopSpec{}, File: path, Line: l.line, RecvName: "fn", Closures: map[int][]GhostUpdate{}}
			s.Contracts[key] = cur
		case "fieldfunc":
			// fieldfunc (T).Field : contract of calls through the function value stored in that struct field
			if pkg == nil {
				return fail(l, "no package in scope")
			}
			mm := regexp.MustCompile(`^\(\*?([^)]+)\)\.(\w+)$`).FindStringSubmatch(rest)
			if mm == nil {
				return fail(l, "fieldfunc (T).Field")
			}
			key := "fieldfunc " + qualifyTypeName(mm[1], pkg, w) + "." + mm[2]
			cur = &Contract{Key: key, Pkg: pkg, Loops: map[int]*LoopSpec{}, File: path, Line: l.line, RecvName: "fn", Closures: map[int][]GhostUpdate{}}
			s.Contracts[key] = cur
		case "property":
			if cur == nil {
				return fail(l, "property outside contract")
			}
			cur.Props = append(cur.Props, strings.Fields(rest)...)
		case "trusted":
			if cur == nil {
				return fail(l, "trusted outside contract")
			}
			cur.Trusted = true
		case "pure":
			if cur == nil {
				return fail(l, "pure outside contract")
			}
			cur.Pure = true
		case "inline":
			cur.Inline = true
		case "nosafety":
			cur.NoSafety = true
		case "thread":
			cur.Thread = true
			if rest != "" {
				e, err := parseExprAt(rest, path, l.line)
				if err != nil {
					return err
				}
				cur.ThreadWG = e
			}
		case "atomic":
			if cur == nil {
				return fail(l, "atomic outside contract")
			}
			cur.Atomic = true
		case "linearizable":
			if cur == nil {
				return fail(l, "linearizable outside contract")
			}
			cur.Linearizable = true
		case "shared":
			if cur == nil {
				return fail(l, "shared outside contract")
			}
			ts, _, err := parseAssigns(rest, path, l.line)
			if err != nil {
				return err
			}
			cur.Shared = append(cur.Shared, ts...)
		case "object-invariant":
			if cur == nil {
				return fail(l, "object-invariant outside contract")
			}
			c, err := parseClause(rest, path, l.line)
			if err != nil {
				return err
			}
			c.Pkg = pkg
			cur.ObjInvs = append(cur.ObjInvs, c)
		case "iterates":
			// iterates f over domExpr, valExpr
			m := regexp.MustCompile(`^(\w+)\s+over\s+(.+)$`).FindStringSubmatch(rest)
			if m == nil || cur == nil {
				return fail(l, "iterates <param> over <dom>, <val>")
			}
			parts := splitTopLevel(m[2], ',')
			if len(parts) != 2 {
				return fail(l, "iterates <param> over <dom>, <val>")
			}
			de, err := parseExprAt(strings.TrimSpace(parts[0]), path, l.line)
			if err != nil {
				return err
			}
			ve, err := parseExprAt(strings.TrimSpace(parts[1]), path, l.line)
			if err != nil {
				return err
			}
			cur.IterParam, cur.IterDom, cur.IterVal = m[1], de, ve
		case "iteration":
			// iteration <k> invariant [label] expr   (k-th call of an iterating callee in this function, source order)
			f := strings.Fields(rest)
			if cur == nil || len(f) < 3 || f[1] != "invariant" {
				return fail(l, "iteration <k> invariant [label] expr")
			}
			k, err := strconv.Atoi(f[0])
			if err != nil {
				return fail(l, "bad iteration ordinal")
			}
			body := strings.TrimSpace(strings.TrimPrefix(strings.TrimSpace(strings.TrimPrefix(rest, f[0])), "invariant"))
			c, err := parseClause(body, path, l.line)
			if err != nil {
				return err
			}
			c.Pkg = pkg
			if cur.Iterations == nil {
				cur.Iterations = map[int][]*Clause{}
			}
			cur.Iterations[k] = append(cur.Iterations[k], c)
		case "termination":
			// termination property C02 [...]: which properties the termination obligations of every function belong to
			f := strings.Fields(rest)
			if len(f) < 2 || f[0] != "property" {
				return fail(l, "termination property <id> ...")
			}
			s.TerminationProps = append(s.TerminationProps, f[1:]...)
			cur = nil
		case "terminates":
			if cur == nil {
				return fail(l, "terminates outside contract")
			}
			cur.Terminates = true
		case "panics":
			if cur == nil {
				return fail(l, "panics outside contract")
			}
			cur.Panics = true
		case "decreases":
			// decreases e1, e2, ...: the function's recursion measure (lexicographic, every component bounded below by 0)
			if cur == nil {
				return fail(l, "decreases outside contract")
			}
			if len(cur.Decreases) > 0 {
				return fail(l, "duplicate decreases clause")
			}
			for _, part := range splitTopLevel(rest, ',') {
				c, err := parseClause(strings.TrimSpace(part), path, l.line)
				if err != nil {
					return err
				}
				c.Pkg = pkg
				c.Label = "decreases"
				cur.Decreases = append(cur.Decreases, c)
			}
		case "guarded":
			// guarded <mutex>: target, target ...   (thread contracts: lockset discipline for shared locations)
			if cur == nil {
				return fail(l, "guarded outside contract")
			}
			i := strings.Index(rest, ":")
			if i < 0 {
				return fail(l, "guarded <mutex>: targets")
			}
			mu, err := parseExprAt(strings.TrimSpace(rest[:i]), path, l.line)
			if err != nil {
				return err
			}
			ts, _, err := parseAssigns(rest[i+1:], path, l.line)
			if err != nil {
				return err
			}
			for k := range ts {
				ts[k].Guard = mu
			}
			cur.Assigns = append(cur.Assigns, ts...)
		case "lockinv":
			// lockinv <mutex>: [label] expr
			if cur == nil {
				return fail(l, "lockinv outside contract")
			}
			i := strings.Index(rest, ":")
			if i < 0 {
				return fail(l, "lockinv <mutex>: [label] expr")
			}
			mu, err := parseExprAt(strings.TrimSpace(rest[:i]), path, l.line)
			if err != nil {
				return err
			}
			c, err := parseClause(strings.TrimSpace(rest[i+1:]), path, l.line)
			if err != nil {
				return err
			}
			c.Pkg = pkg
			cur.LockInvs = append(cur.LockInvs, LockInv{Mu: mu, Clause: c})
		case "ghost-tags":
			cur.GhostTags = append(cur.GhostTags, strings.Fields(rest)...)
		case "replay":
			cur.Replay = rest
		case "probe":
			m := regexp.MustCompile(`^(\w+)(?:\[(\w+)<(\d+)\])?\s*=\s*(.+)$`).FindStringSubmatch(rest)
			if m == nil {
				return fail(l, "probe name[k<N] = expr")
			}
			e, err := parseExprAt(m[4], path, l.line)
			if err != nil {
				return err
			}
			pd := ProbeDef{Name: m[1], IndexVar: m[2], Expr: e, Src: rest}
			if m[3] != "" {
				pd.N, _ = strconv.Atoi(m[3])
			}
			cur.Probes = append(cur.Probes, pd)
		case "implements":
			cur.Implement = rest
		case "receiver":
			cur.RecvName = rest
		case "let":
			eq := strings.Index(rest, "=")
			if eq < 0 {
				return fail(l, "let needs name = expr")
			}
			e, err := parseExprAt(strings.TrimSpace(rest[eq+1:]), path, l.line)
			if err != nil {
				return err
			}
			cur.Lets = append(cur.Lets, LetDef{Name: strings.TrimSpace(rest[:eq]), Expr: e, Src: rest})
		case "callback":
			// callback (Iface).Method as pkg.FuncType
			if mf := regexp.MustCompile(`^functype\s+(\S+)$`).FindStringSubmatch(rest); mf != nil && cur != nil {
				// callback functype pkg.FuncType : the closure is handed out as a value of that named function type and must
				// refine the function type's contract (checked where the closure is created)
				cur.Callback = "functype " + qualifyTypeName(mf[1], pkg, w)
				continue
			}
			m := regexp.MustCompile(`^(\S+)\s+as\s+(\S+)$`).FindStringSubmatch(rest)
			if m == nil || cur == nil {
				return fail(l, "callback (Iface).Method as FuncType")
			}
			key := m[1]
			if strings.HasPrefix(key, "(") {
				end := strings.Index(key, ")")
				key = "(" + qualifyTypeName(key[1:end], pkg, w) + ")" + key[end+1:]
			}
			cur.Callback = key
			te, err := parseExprAt(m[2], path, l.line)
			if err != nil {
				return err
			}
			cur.CallbackAs = te
		case "stable":
			if cur == nil {
				return fail(l, "stable outside contract")
			}
			for _, part := range splitTopLevel(rest, ',') {
				e, err := parseExprAt(part, path, l.line)
				if err != nil {
					return err
				}
				cur.Stable = append(cur.Stable, e)
			}
		case "requires-at-creation":
			if cur == nil {
				return fail(l, "requires-at-creation outside contract")
			}
			c, err := parseClause(rest, path, l.line)
			if err != nil {
				return err
			}
			c.Pkg = pkg
			c.AtCreation = true
			cur.Requires = append(cur.Requires, c)
		case "requires", "ensures", "free-ensures":
			if cur == nil {
				return fail(l, "%s outside contract", word)
			}
			c, err := parseClause(rest, path, l.line)
			if err != nil {
				return err
			}
			c.Pkg = pkg
			switch word {
			case "requires":
				cur.Requires = append(cur.Requires, c)
			case "ensures":
				cur.Ensures = append(cur.Ensures, c)
			default:
				c.Free = true
				cur.Ensures = append(cur.Ensures, c)
			}
		case "assigns":
			if cur == nil {
				return fail(l, "assigns outside contract")
			}
			ts, all, err := parseAssigns(rest, path, l.line)
			if err != nil {
				return err
			}
			cur.Assigns = append(cur.Assigns, ts...)
			if all {
				cur.AssignAll = true
			}
		case "loop":
			if cur == nil {
				return fail(l, "loop outside contract")
			}
			f := strings.Fields(rest)
			if len(f) < 2 {
				return fail(l, "loop <n> invariant|decreases|assigns ...")
			}
			n, err := strconv.Atoi(f[0])
			if err != nil {
				return fail(l, "bad loop ordinal")
			}
			ls := cur.Loops[n]
			if ls == nil {
				ls = &LoopSpec{Ordinal: n}
				cur.Loops[n] = ls
			}
			body := strings.TrimSpace(strings.TrimPrefix(strings.TrimSpace(strings.TrimPrefix(rest, f[0])), f[1]))
			switch f[1] {
			case "invariant", "free-invariant":
				c, err := parseClause(body, path, l.line)
				if err != nil {
					return err
				}
				c.Pkg = pkg
				c.Free = f[1] == "free-invariant"
				ls.Invariants = append(ls.Invariants, c)
			case "decreases":
				e, err := parseExprAt(body, path, l.line)
				if err != nil {
					return err
				}
				ls.Decreases = e
				ls.DecSrc = body
			case "assigns":
				ts, _, err := parseAssigns(body, path, l.line)
				if err != nil {
					return err
				}
				ls.Assigns = append(ls.Assigns, ts...)
				ls.HasAssigns = true
			default:
				return fail(l, "unknown loop clause %q", f[1])
			}
		case "closure":
			// closure <k> ghost target = value
			f := strings.Fields(rest)
			if len(f) < 3 || f[1] != "ghost" {
				return fail(l, "closure <k> ghost target = value")
			}
			n, err := strconv.Atoi(f[0])
			if err != nil {
				return fail(l, "bad closure ordinal")
			}
			body := strings.TrimSpace(strings.TrimPrefix(strings.TrimSpace(strings.TrimPrefix(rest, f[0])), "ghost"))
			eq := strings.Index(body, " = ")
			if eq < 0 {
				return fail(l, "ghost update needs ' = '")
			}
			te, err := parseExprAt(strings.TrimSpace(body[:eq]), path, l.line)
			if err != nil {
				return err
			}
			ve, err := parseExprAt(strings.TrimSpace(body[eq+3:]), path, l.line)
			if err != nil {
				return err
			}
			cur.Closures[n] = append(cur.Closures[n], GhostUpdate{Target: te, Value: ve, Src: body})
		case "region":
			// region var name map[K]V : abstract memory regions indexed by K (real memory for the race rules)
			m := regexp.MustCompile(`^var\s+(\w+)\s+(.+)$`).FindStringSubmatch(rest)
			if m == nil {
				return fail(l, "region var name Type")
			}
			te, err := parseExprAt(m[2], path, l.line)
			if err != nil {
				return err
			}
			s.GhostVars[m[1]] = &GhostVar{Name: m[1], Type: te, Pkg: pkg, Region: true}
		case "ghost":
			// top-level: ghost field (T) name Type | ghost var name Type
			// in contract: ghost after|before call <callee> [#k]: target = value
			f := strings.Fields(rest)
			if len(f) >= 1 && f[0] == "field" {
				m := regexp.MustCompile(`^field\s+\(([^)]+)\)\s+(\w+)\s+(.+)$`).FindStringSubmatch(rest)
				if m == nil {
					return fail(l, "ghost field (T) name Type")
				}
				te, err := parseExprAt(m[3], path, l.line)
				if err != nil {
					return err
				}
				owner := qualifyTypeName(strings.TrimPrefix(m[1], "*"), pkg, w)
				gf := &GhostField{Owner: owner, Name: m[2], Type: te, Pkg: pkg}
				s.GhostFields[owner+"."+m[2]] = gf
				s.GhostByName[m[2]] = append(s.GhostByName[m[2]], gf)
				continue
			}
			if len(f) >= 1 && f[0] == "local" {
				// ghost local name Type   (inside a contract)
				m := regexp.MustCompile(`^local\s+(\w+)\s+(.+)$`).FindStringSubmatch(rest)
				if m == nil || cur == nil {
					return fail(l, "ghost local name Type (inside a contract)")
				}
				te, err := parseExprAt(m[2], path, l.line)
				if err != nil {
					return err
				}
				cur.GhostLocals = append(cur.GhostLocals, GhostVar{Name: m[1], Type: te, Pkg: pkg})
				continue
			}
			if len(f) >= 1 && f[0] == "var" {
				m := regexp.MustCompile(`^var\s+(\w+)\s+(.+)$`).FindStringSubmatch(rest)
				if m == nil {
					return fail(l, "ghost var name Type")
				}
				te, err := parseExprAt(m[2], path, l.line)
				if err != nil {
					return err
				}
				s.GhostVars[m[1]] = &GhostVar{Name: m[1], Type: te, Pkg: pkg}
				continue
			}
			if cur == nil {
				return fail(l, "ghost statement outside contract")
			}
			if mr := regexp.MustCompile(`^at\s+return\s*:\s*(.+?)\s+=\s+(.+)$`).FindStringSubmatch(rest); mr != nil {
				// ghost at return: target = value  (runs at every return, results bound; the ghost event "this call reported ...")
				te, err := parseExprAt(mr[1], path, l.line)
				if err != nil {
					return err
				}
				ve, err := parseExprAt(mr[2], path, l.line)
				if err != nil {
					return err
				}
				cur.Ghosts = append(cur.Ghosts, GhostStmt{Callee: "@return", Target: te, Value: ve, Src: rest})
				continue
			}
			m := regexp.MustCompile(`^(after|before)\s+call\s+(\S+?)(?:\s+#(\d+))?\s*:\s*(.+?)\s+=\s+(.+)$`).FindStringSubmatch(rest)
			if m == nil {
				return fail(l, "ghost after|before call <callee> [#k]: target = value")
			}
			te, err := parseExprAt(m[4], path, l.line)
			if err != nil {
				return err
			}
			ve, err := parseExprAt(m[5], path, l.line)
			if err != nil {
				return err
			}
			k := 0
			if m[3] != "" {
				k, _ = strconv.Atoi(m[3])
			}
			cur.Ghosts = append(cur.Ghosts, GhostStmt{Callee: m[2], Ordinal: k, Before: m[1] == "before", Target: te, Value: ve, Src: rest})
		case "assert", "assume":
			// assert before|after call <callee> [#k]: [label] expr
			if cur == nil {
				return fail(l, "%s outside contract", word)
			}
			m := regexp.MustCompile(`^(after|before)\s+call\s+(\S+?)(?:\s+#(\d+))?\s*:\s*(.+)$`).FindStringSubmatch(rest)
			if m == nil {
				return fail(l, "assert after|before call <callee> [#k]: [label] expr")
			}
			c, err := parseClause(m[4], path, l.line)
			if err != nil {
				return err
			}
			c.Pkg = pkg
			c.Free = word == "assume"
			k := 0
			if m[3] != "" {
				k, _ = strconv.Atoi(m[3])
			}
			cur.Asserts = append(cur.Asserts, &SiteAssert{Callee: m[2], Ordinal: k, Before: m[1] == "before", Clause: c})
		case "spec":
			// spec func Name(params) Type = body      |  spec func Name(params) Type   (opaque)
			m := regexp.MustCompile(`^func\s+(\w+)\((.*?)\)\s*(.*)$`).FindStringSubmatch(rest)
			if m == nil {
				return fail(l, "spec func Name(params) Type [= body]")
			}
			sf := &SpecFunc{Name: m[1], Pkg: pkg, Src: rest, File: path, Line: l.line}
			tail := m[3]
			// parameters may contain parens (e.g. *T) but not nested parens in practice
			ft, err := parseExprAt("func("+m[2]+")", path, l.line)
			if err != nil {
				return err
			}
			for _, fld := range ft.(*ast.FuncType).Params.List {
				for _, nm := range fld.Names {
					sf.Params = append(sf.Params, SpecParam{Name: nm.Name, Type: fld.Type})
				}
			}
			resSrc := tail
			if eq := strings.Index(tail, " := "); eq >= 0 {
				sf.Defined = true
				tail = tail[:eq] + " = " + tail[eq+4:]
			}
			if eq := strings.Index(tail, " = "); eq >= 0 {
				resSrc = strings.TrimSpace(tail[:eq])
				b, err := parseExprAt(strings.TrimSpace(tail[eq+3:]), path, l.line)
				if err != nil {
					return err
				}
				sf.Body = b
			} else {
				sf.Opaque = true
			}
			rt, err := parseExprAt(resSrc, path, l.line)
			if err != nil {
				return err
			}
			sf.Result = rt
			if s.SpecFuncs[sf.Name] != nil {
				return fail(l, "duplicate spec func %s", sf.Name)
			}
			s.SpecFuncs[sf.Name] = sf
			cur = nil
		case "frame":
			m := regexp.MustCompile(`^(\w+)\((.*?)\)\s*=\s*(.+)$`).FindStringSubmatch(rest)
			if m == nil {
				return fail(l, "frame Name(params) = target, target")
			}
			ts, _, err := parseAssigns(m[3], path, l.line)
			if err != nil {
				return err
			}
			fr := &Frame{Name: m[1], Targets: ts, Pkg: pkg}
			for _, pn := range strings.Split(m[2], ",") {
				if pn = strings.TrimSpace(pn); pn != "" {
					fr.Params = append(fr.Params, strings.Fields(pn)[0])
				}
			}
			s.Frames[fr.Name] = fr
			cur = nil
		case "bind":
			// bind (r *T) Iface.Field = expr
			m := regexp.MustCompile(`^\((\w+)\s+(\S+)\)\s+(\S+)\.(\w+)(?:\[(\w+)\])?\s+=\s+(.+)$`).FindStringSubmatch(rest)
			if m == nil {
				return fail(l, "bind (r *T) Iface.Field[i] = expr [footprint a, b]")
			}
			exprSrc := m[6]
			var foot []ast.Expr
			if i := strings.Index(exprSrc, " footprint "); i >= 0 {
				for _, part := range splitTopLevel(exprSrc[i+len(" footprint "):], ',') {
					fe, err := parseExprAt(part, path, l.line)
					if err != nil {
						return err
					}
					foot = append(foot, fe)
				}
				exprSrc = strings.TrimSpace(exprSrc[:i])
			}
			e, err := parseExprAt(exprSrc, path, l.line)
			if err != nil {
				return err
			}
			conc := m[2]
			ptr := strings.HasPrefix(conc, "*")
			conc = qualifyTypeName(strings.TrimPrefix(conc, "*"), pkg, w)
			if ptr {
				conc = "*" + conc
			}
			s.Bindings = append(s.Bindings, &Binding{Concrete: conc, RecvName: m[1], Iface: qualifyTypeName(m[3], pkg, w), Field: m[4], Expr: e, Pkg: pkg, Src: rest, IndexVar: m[5], Footprint: foot})
			cur = nil
		case "axiom", "lemma":
			c, err := parseClause(rest, path, l.line)
			if err != nil {
				return err
			}
			s.Axioms = append(s.Axioms, &Axiom{Label: c.Label, Expr: c.Expr, Src: c.Src, Pkg: pkg, Lemma: word == "lemma", Props: c.Props, File: path, Line: l.line})
			cur = nil
		case "effect-free":
			// trusted: callee keys (regexp) with no effect on verified state and unconstrained results
			for _, pat := range strings.Fields(rest) {
				re, err := regexp.Compile("^" + pat + "$")
				if err != nil {
					return fail(l, "bad pattern %q", pat)
				}
				s.TrustedPure = append(s.TrustedPure, re)
				s.TrustedPureSrc = append(s.TrustedPureSrc, pat)
			}
		default:
			return fail(l, "unknown directive %q", word)
		}
	}
	return nil
}

// qualifyKey turns "F", "(*T).M", "(T).M", "F$1" into keys carrying the package path, unless already qualified.
func qualifyKey(key, pkgPath string) string {
	if strings.HasPrefix(key, "(") {
		end := strings.Index(key, ")")
		recv := key[1:end]
		ptr := strings.HasPrefix(recv, "*")
		recv = strings.TrimPrefix(recv, "*")
		if !strings.Contains(recv, ".") {
			recv = pkgPath + "." + recv
		}
		if ptr {
			recv = "*" + recv
		}
		return "(" + recv + ")" + key[end+1:]
	}
	return pkgPath + "." + key
}

// qualifyTypeName resolves "T" or "pkg.T" to "path.T".
func qualifyTypeName(name string, pkg *packages.Package, w *World) string {
	if i := strings.LastIndex(name, "."); i >= 0 {
		pn, tn := name[:i], name[i+1:]
		if strings.Contains(pn, "/") {
			return name
		}
		if pkg != nil {
			for path, ip := range pkg.Imports {
				if ip.Name == pn {
					return path + "." + tn
				}
			}
			if pkg.Name == pn {
				return pkg.PkgPath + "." + tn
			}
		}
		if ps := w.ByName[pn]; len(ps) >= 1 {
			// prefer repo packages
			sort.Slice(ps, func(i, j int) bool { return isRepoPkg(ps[i].PkgPath) && !isRepoPkg(ps[j].PkgPath) })
			return ps[0].PkgPath + "." + tn
		}
		return name
	}
	if pkg != nil {
		return pkg.PkgPath + "." + name
	}
	return name
}

// loadAllSpecs reads the in-repo contract files and the trusted spec files.
func loadAllSpecs(w *World, trustedDir string) (*Specs, error) {
	s := newSpecs()
	var pkgs []*packages.Package
	for _, p := range w.AllPkgs {
		if isRepoPkg(p.PkgPath) {
			pkgs = append(pkgs, p)
		}
	}
	sort.Slice(pkgs, func(i, j int) bool { return pkgs[i].PkgPath < pkgs[j].PkgPath })
	for _, p := range pkgs {
		for _, f := range p.CompiledGoFiles {
			if strings.HasSuffix(f, "zz_contracts_verif.go") {
				if err := s.loadSpecFile(w, f, p, false); err != nil {
					return nil, err
				}
			}
		}
	}
	files, _ := filepath.Glob(filepath.Join(trustedDir, "*.spec"))
	sort.Strings(files)
	for _, f := range files {
		if err := s.loadSpecFile(w, f, nil, true); err != nil {
			return nil, err
		}
	}
	return s, nil
}
