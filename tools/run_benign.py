#!/usr/bin/env python3
"""run_benign.py [id ...]: the must-pass corpus: every semantics-preserving edit of /verif/selftest/benign is applied to a scratch
copy of /repo's working tree and the property's quick check must stay silent there. Writes /verif/selftest/BENIGN.md/.json."""
import json, os, subprocess, sys, shutil, tempfile
from concurrent.futures import ThreadPoolExecutor
env = dict(os.environ, GOFLAGS="-mod=mod", GOPROXY="off", GOSUMDB="off", GOTOOLCHAIN="local")
idx = json.load(open("/verif/selftest/benign/index.json")); want = set(sys.argv[1:])
def one(m):
    if want and m["id"] not in want: return None
    t = tempfile.mkdtemp(prefix="benrun_")
    try:
        subprocess.run(["rsync", "-a", "--exclude", ".git", "/repo/", t + "/"], check=True)
        ap = subprocess.run(["git", "apply", f"/verif/selftest/benign/{m['id']}.diff"], cwd=t, capture_output=True, text=True)
        if ap.returncode != 0: return dict(m, applies=False, note=ap.stderr.strip()[:200])
        p = subprocess.run(["/verif/bin/govc", "check", "-property", m["property"], "-tier", "quick", "-repo", t, "-scratch", "-workers", "8"], cwd="/verif", env=env, capture_output=True, text=True)
        lines = [l.strip() for l in p.stdout.splitlines() if l.startswith("  obligation") or l.startswith("  UNBOUND")]
        return dict(m, applies=True, silent=("VIOLATION" not in p.stdout), alarms=[l[:220] for l in lines][:4])
    finally:
        shutil.rmtree(t)
with ThreadPoolExecutor(max_workers=2) as ex:
    rows = [r for r in ex.map(one, idx) if r]
if want and os.path.exists("/verif/selftest/BENIGN.json"):
    prev = json.load(open("/verif/selftest/BENIGN.json")); new = {r["id"]: r for r in rows}
    rows = [new.pop(r["id"], r) for r in prev] + list(new.values())
json.dump(rows, open("/verif/selftest/BENIGN.json", "w"), indent=1)
with open("/verif/selftest/BENIGN.md", "w") as f:
    f.write("# Must-pass corpus: semantics-preserving edits (tools/make_benign.py) against the current checks\n\n| edit | what | check stays silent | alarm (if any) |\n|---|---|---|---|\n")
    for r in rows:
        a = (r.get("alarms") or [""])[0].replace("|", "/")
        f.write(f"| {r['id']} | {r['what']} | {'yes' if r.get('silent') else ('n/a' if not r.get('applies') else '**NO**')} | {a} |\n")
print("false alarms:", [r["id"] for r in rows if r.get("applies") and not r.get("silent")])
