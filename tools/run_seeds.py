#!/usr/bin/env python3
"""run_seeds.py [seed-id ...]: the must-fail corpus of independently seeded changes. Each kept change (/verif/seeded/<id>/patch.diff)
is applied to a scratch copy of /repo's working tree (never to /repo) and the quick check of its property runs there.
Writes /verif/seeded/SUMMARY.md and SUMMARY.json (merging when ids are given)."""
import json, os, subprocess, sys, glob, shutil, tempfile
from concurrent.futures import ThreadPoolExecutor
env = dict(os.environ, GOFLAGS="-mod=mod", GOPROXY="off", GOSUMDB="off", GOTOOLCHAIN="local")
ids = sys.argv[1:] or sorted(os.path.basename(os.path.dirname(p)) for p in glob.glob("/verif/seeded/*/patch.diff"))
def one(sid):
    d = f"/verif/seeded/{sid}"
    meta = json.load(open(f"{d}/meta.json"))
    props = meta.get("property")
    if isinstance(props, str): props = [props]
    props = list(dict.fromkeys(list(props or [sid.split("-")[0]]) + list(meta.get("also_check", []))))
    t = tempfile.mkdtemp(prefix="seedrun_")
    try:
        subprocess.run(["rsync", "-a", "--exclude", ".git", "/repo/", t + "/"], check=True)
        ap = subprocess.run(["git", "apply", f"{d}/patch.diff"], cwd=t, capture_output=True, text=True)
        if ap.returncode != 0:
            return {"seed": sid, "applies": False, "note": "patch no longer applies to the current tree: " + ap.stderr.strip()[:200]}
        res = {"seed": sid, "applies": True, "checks": {}}
        for p in props:
            r = subprocess.run(["/verif/bin/govc", "check", "-property", p, "-tier", "quick", "-repo", t, "-scratch", "-workers", "6"], cwd="/verif", env=env, capture_output=True, text=True)
            lines = [l.strip() for l in r.stdout.splitlines() if l.startswith("  obligation") or l.startswith("  UNBOUND")]
            res["checks"][p] = {"violation": ("VIOLATION property=" + p) in r.stdout, "by": [l[:220] for l in lines][:4]}
        res["detected"] = any(c["violation"] for c in res["checks"].values())
        return res
    finally:
        shutil.rmtree(t)
with ThreadPoolExecutor(max_workers=3) as ex:
    rows = list(ex.map(one, ids))
for r in rows: print(r["seed"], "n/a" if not r.get("applies") else ("DETECTED" if r.get("detected") else "MISSED"), flush=True)
if sys.argv[1:] and os.path.exists("/verif/seeded/SUMMARY.json"):
    prev = json.load(open("/verif/seeded/SUMMARY.json")); new = {r["seed"]: r for r in rows}
    rows = [new.pop(r["seed"], r) for r in prev] + list(new.values()); rows.sort(key=lambda r: r["seed"])
json.dump(rows, open("/verif/seeded/SUMMARY.json", "w"), indent=1)
with open("/verif/seeded/SUMMARY.md", "w") as f:
    f.write("# Seeded changes against the current checks (written by tools/run_seeds.py; scratch copies, /repo untouched)\n\n| seed | reported | first reporting obligation |\n|---|---|---|\n")
    for r in rows:
        if not r.get("applies"):
            f.write(f"| {r['seed']} | n/a | {r['note']} |\n"); continue
        by = next((b for c in r["checks"].values() for b in c["by"]), "")
        f.write(f"| {r['seed']} | {'yes' if r['detected'] else '**NO**'} | {by.replace('|','/')} |\n")
print("missed:", [r["seed"] for r in rows if r.get("applies") and not r.get("detected")])
