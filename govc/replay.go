package main

import (
	"bytes"
	"context"
	"encoding/json"
	"fmt"
	"os"
	"os/exec"
	"path/filepath"
	"strings"
	"time"
)

// findModel searches a witness for a failed obligation: the same script, handed to cvc5's finite model finder
// (uninterpreted sorts get small finite domains; the proof obligations themselves stay unbounded).
func findModel(script string, timeoutS int) (string, bool) {
	m, _, ok := findModelProbes(script, nil, timeoutS)
	return m, ok
}

// findModelProbes additionally asks for the values of the probe terms; returns name -> value (SMT-LIB text).
func findModelProbes(script string, probes []Probe, timeoutS int) (string, map[string]string, bool) {
	dir, err := os.MkdirTemp("", "govc-model-")
	if err != nil {
		return err.Error(), nil, false
	}
	defer os.RemoveAll(dir)
	file := filepath.Join(dir, "m.smt2")
	body := "(set-option :produce-models true)\n(set-logic ALL)\n" + script
	for _, p := range probes {
		body += fmt.Sprintf("(get-value (%s))\n", p.Term)
	}
	os.WriteFile(file, []byte(body), 0o644)
	run := func(argv ...string) string {
		ctx, cancel := context.WithTimeout(context.Background(), time.Duration(timeoutS+5)*time.Second)
		defer cancel()
		cmd := exec.CommandContext(ctx, argv[0], argv[1:]...)
		var out bytes.Buffer
		cmd.Stdout = &out
		cmd.Stderr = &out
		_ = cmd.Run()
		return out.String()
	}
	text := run("cvc5", "--lang=smt2", fmt.Sprintf("--tlimit=%d", timeoutS*1000), "--finite-model-find", file)
	lines := strings.Split(text, "\n")
	candidate := false
	if strings.TrimSpace(lines[0]) == "unknown" && len(probes) > 0 && len(lines) > 1 && strings.HasPrefix(strings.TrimSpace(lines[1]), "((") {
		// the finite model finder gave up proving the candidate a model but still reports its values: good enough as
		// a candidate input, since only a replay on the real code is ever trusted
		candidate = true
	}
	if strings.TrimSpace(lines[0]) != "sat" && !candidate {
		// second opinion: z3 decides quantifier-light scripts directly
		text2 := run("z3-new", fmt.Sprintf("-T:%d", timeoutS), file)
		lines = strings.Split(text2, "\n")
		if strings.TrimSpace(lines[0]) != "sat" {
			return text + "\n" + text2, nil, false
		}
		text = text2
	}
	vals := map[string]string{}
	// one "((term value))" answer per probe, in order; answers may span lines: re-split on balanced parens
	rest := strings.Join(lines[1:], "\n")
	answers := splitSexprs(rest)
	for i, p := range probes {
		if i < len(answers) {
			a := strings.TrimSpace(answers[i])
			// strip "((" term " " value "))"
			if strings.HasPrefix(a, "((") && strings.HasSuffix(a, "))") {
				inner := a[2 : len(a)-2]
				if strings.HasPrefix(inner, p.Term) {
					vals[p.Name] = strings.TrimSpace(inner[len(p.Term):])
					continue
				}
				// fall back: value is the last s-expression
				parts := splitSexprs(inner)
				if len(parts) > 0 {
					vals[p.Name] = strings.TrimSpace(parts[len(parts)-1])
				}
			}
		}
	}
	return text, vals, true
}

func splitSexprs(s string) []string {
	var out []string
	depth := 0
	start := -1
	for i := 0; i < len(s); i++ {
		switch s[i] {
		case '(':
			if depth == 0 && start < 0 {
				start = i
			}
			depth++
		case ')':
			depth--
			if depth == 0 && start >= 0 {
				out = append(out, s[start:i+1])
				start = -1
			}
		case ' ', '\n', '\t':
			if depth == 0 && start >= 0 {
				out = append(out, s[start:i])
				start = -1
			}
		default:
			if depth == 0 && start < 0 {
				start = i
			}
		}
	}
	if start >= 0 {
		out = append(out, s[start:])
	}
	return out
}

func findModelOld(script string, timeoutS int) (string, bool) {
	dir, err := os.MkdirTemp("", "govc-model-")
	if err != nil {
		return err.Error(), false
	}
	defer os.RemoveAll(dir)
	file := filepath.Join(dir, "m.smt2")
	body := "(set-option :produce-models true)\n(set-logic ALL)\n" + script + "(get-model)\n"
	os.WriteFile(file, []byte(body), 0o644)
	ctx, cancel := context.WithTimeout(context.Background(), time.Duration(timeoutS+5)*time.Second)
	defer cancel()
	cmd := exec.CommandContext(ctx, "cvc5", "--lang=smt2", fmt.Sprintf("--tlimit=%d", timeoutS*1000), "--finite-model-find", file)
	var out bytes.Buffer
	cmd.Stdout = &out
	cmd.Stderr = &out
	_ = cmd.Run()
	text := out.String()
	first := strings.TrimSpace(strings.SplitN(text, "\n", 2)[0])
	if first == "sat" {
		return text, true
	}
	return text, false
}

// runReplayDriver concretises the probe values through the function's replay driver (/verif/replay/<name>/) and runs
// the generated input against the real code: an in-package test injected with go test -overlay.
func runReplayDriver(o *options, name string, ob *Obligation, vals map[string]string, base string) map[string]any {
	if ob.Replay == "" {
		return nil
	}
	ddir := filepath.Join(o.verif, "replay", ob.Replay)
	raw, err := os.ReadFile(filepath.Join(ddir, "driver.json"))
	if err != nil {
		return map[string]any{"error": err.Error()}
	}
	var drv struct {
		Package string `json:"package"`
		Test    string `json:"test_file"`
		Run     string `json:"run"`
		Race    bool   `json:"race"`
	}
	if err := json.Unmarshal(raw, &drv); err != nil {
		return map[string]any{"error": err.Error()}
	}
	input := map[string]any{"obligation": name, "label": ob.Label, "kind": ob.Kind, "site": ob.Site, "probes": vals}
	inPath := base + ".input.json"
	writeJSON(inPath, input)
	tmp, err := os.MkdirTemp("", "govc-replay-")
	if err != nil {
		return map[string]any{"error": err.Error()}
	}
	defer os.RemoveAll(tmp)
	ov := filepath.Join(tmp, "overlay.json")
	target := filepath.Join(o.repo, drv.Package, "zz_govc_replay_test.go")
	writeJSON(ov, map[string]any{"Replace": map[string]string{target: filepath.Join(ddir, drv.Test)}})
	args := []string{"test", "-overlay", ov, "-vet=off", "-count=1", "-timeout", "60s", "-run", drv.Run}
	if drv.Race {
		args = append(args, "-race")
	}
	args = append(args, "./"+drv.Package)
	ctx, cancel := context.WithTimeout(context.Background(), 180*time.Second)
	defer cancel()
	cmd := exec.CommandContext(ctx, "go", args...)
	cmd.Dir = o.repo
	cmd.Env = append(os.Environ(), "GOFLAGS=-mod=mod", "GOPROXY=off", "GOSUMDB=off", "GOTOOLCHAIN=local", "GOVC_REPLAY_JSON="+inPath)
	var out bytes.Buffer
	cmd.Stdout = &out
	cmd.Stderr = &out
	runErr := cmd.Run()
	text := out.String()
	res := map[string]any{"driver": ob.Replay, "input": inPath, "cmd": "cd " + o.repo + " && GOVC_REPLAY_JSON=" + inPath + " go " + strings.Join(args, " ") + "   (overlay: " + target + " <- " + filepath.Join(ddir, drv.Test) + ")", "output": trunc(text, 3000)}
	res["reproduced"] = runErr != nil && strings.Contains(text, "GOVC-REPLAY: VIOLATION")
	return res
}

// tryReplay concretises a model for the obligation's replay group and runs it against the real code.
// Returns nil when no driver exists for the obligation.
func tryReplay(o *options, name string, ob *Obligation, model string, base string) map[string]any {
	for _, d := range replayDrivers {
		if d.match(name, ob) {
			return d.run(o, name, ob, model, base)
		}
	}
	return nil
}

type replayDriver struct {
	group string
	match func(name string, ob *Obligation) bool
	run   func(o *options, name string, ob *Obligation, model string, base string) map[string]any
}

var replayDrivers []replayDriver
