#!/usr/bin/env python3
"""try_seed.py <seed_out_dir> <property> [more properties...]
Applies <dir>/patch.diff to /repo, confirms: builds, existing suite passes, demo fails with the change; runs the
checks of the given properties; reverts /repo; confirms the demo passes without the change. Prints a JSON summary."""
import json, os, subprocess, sys, tempfile, shutil
env = dict(os.environ, GOFLAGS="-mod=mod", GOPROXY="off", GOSUMDB="off", GOTOOLCHAIN="local")
def sh(cmd, cwd="/repo", timeout=900):
    p = subprocess.run(cmd, shell=True, cwd=cwd, env=env, capture_output=True, text=True, timeout=timeout)
    return p.returncode, (p.stdout + p.stderr)
d = sys.argv[1].rstrip("/"); props = sys.argv[2:]
meta = json.load(open(f"{d}/meta.json"))
demo_rel = meta["demo_test_path"]; demo_src = f"{d}/{os.path.basename(demo_rel)}"
pkg = "./" + os.path.dirname(demo_rel)
tmp = tempfile.mkdtemp(prefix="seedov_")
def place_demo():
    os.makedirs(os.path.dirname(f"/repo/{demo_rel}"), exist_ok=True)
    shutil.copy(demo_src, f"/repo/{demo_rel}")
def remove_demo():
    try: os.remove(f"/repo/{demo_rel}")
    except FileNotFoundError: pass
    d_ = os.path.dirname(f"/repo/{demo_rel}")
    if os.path.isdir(d_) and not os.listdir(d_): os.rmdir(d_)
out = {"seed": d, "property": props}
assert sh("git status --porcelain")[1].strip() == "", "repo not clean"
rc, o = sh(f"git apply {d}/patch.diff"); assert rc == 0, o
try:
    rc, o = sh("go build ./... && go test -vet=off -count=1 ./... 2>&1 | grep -v 'no test files'")
    out["suite_with_change"] = "pass" if rc == 0 and "FAIL" not in o else "FAIL"
    place_demo()
    rc, o = sh(f"go test -vet=off -timeout 120s -count=1 {pkg}")
    remove_demo()
    out["demo_with_change"] = "fails (as required)" if rc != 0 else "PASSES (bad seed)"
    out["checks"] = {}
    for p in props:
        rc, o = sh(f"/verif/bin/govc check -property {p} -tier quick", cwd="/verif")
        viol = [l.strip() for l in o.splitlines() if l.startswith("VIOLATION") or l.startswith("  obligation") or l.startswith("  UNBOUND")]
        out["checks"][p] = {"exit": rc, "lines": [v[:300] for v in viol]}
finally:
    sh("git checkout -- . && git clean -fdq -- . ':!*zz_contracts_verif.go'")
place_demo()
rc, o = sh(f"go test -vet=off -timeout 120s -count=1 {pkg}")
remove_demo()
out["demo_without_change"] = "passes (as required)" if rc == 0 else "FAILS (bad seed): " + o[-300:]
out["repo_clean_after"] = sh("git status --porcelain")[1].strip() == ""
shutil.rmtree(tmp)
print(json.dumps(out, indent=1))
