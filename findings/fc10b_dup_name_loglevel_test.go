package support

import (
	"testing"

	"github.com/go-kid/ioc/syslog"
)

type fc10bComp struct{ id int }

func (c *fc10bComp) Naming() string { return "same-name" }

// Two different components under one name must be rejected whatever the log level is; otherwise the first one
// registered wins silently and the start-up outcome depends on registration order (C10, C07).
func TestFC10bDuplicateNameRejectedAtEveryLogLevel(t *testing.T) {
	for _, lv := range []syslog.Lv{syslog.LvFatal, syslog.LvInfo} {
		syslog.Level(lv)
		a, b := &fc10bComp{1}, &fc10bComp{2}
		for _, order := range [][]any{{a, b}, {b, a}} {
			r := NewRegistry()
			r.RegisterSingleton(order[0])
			rejected := func() (p bool) {
				defer func() { p = recover() != nil }()
				r.RegisterSingleton(order[1])
				return
			}()
			if !rejected {
				got, _ := r.GetSingleton("same-name")
				t.Errorf("level %v: second component under a taken name accepted silently; kept id=%d (first registered wins: order-dependent)", lv, got.(*fc10bComp).id)
			}
		}
	}
	syslog.Level(syslog.LvInfo)
}
