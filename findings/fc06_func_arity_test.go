package func_inject

// Demonstration of F-C06: a func-tag point with a "returns" argument calls the provider's method with no arguments
// without checking its arity; a provider whose method of that name takes parameters makes start-up panic.

import (
	"testing"

	"github.com/go-kid/ioc"
	"github.com/go-kid/ioc/app"
)

type fc06Kinded interface{ Marker() }

type fc06Good struct{}

func (g *fc06Good) Marker()      {}
func (g *fc06Good) Kind() string { return "a" }

type fc06WithParam struct{}

func (w *fc06WithParam) Marker()             {}
func (w *fc06WithParam) Kind(x int) string { return "a" }

type fc06Holder struct {
	Ks []fc06Kinded `func:"Kind,returns=a"`
}

func TestFindingC06MethodWithParametersDoesNotPanic(t *testing.T) {
	defer func() {
		if r := recover(); r != nil {
			t.Fatalf("start-up panicked: %v", r)
		}
	}()
	h := &fc06Holder{}
	_, err := ioc.Run(app.LogError, app.SetComponents(h, &fc06Good{}, &fc06WithParam{}))
	if err != nil {
		t.Fatalf("start-up failed: %v", err)
	}
	if len(h.Ks) != 1 {
		t.Fatalf("expected exactly the provider whose Kind() returns a, got %d", len(h.Ks))
	}
}
