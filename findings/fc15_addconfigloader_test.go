package app

// Demonstration of F-C15: AddConfigLoader replaces the loader list instead of appending to it.

import (
	"testing"

	"github.com/go-kid/ioc/configure"
	"github.com/go-kid/ioc/configure/loader"
)

func TestFindingC15AddConfigLoaderKeepsEarlierSources(t *testing.T) {
	s := &App{Configure: configure.Default()}
	AddConfigLoader(loader.NewRawLoader([]byte("a: 1\n")))(s)
	AddConfigLoader(loader.NewRawLoader([]byte("b: 2\n")))(s)
	if err := s.Configure.Initialize(); err != nil {
		t.Fatal(err)
	}
	if s.Configure.Get("a") == nil {
		t.Errorf("key a supplied by the first added loader is gone: adding a source discarded an earlier one")
	}
	if s.Configure.Get("b") == nil {
		t.Errorf("key b missing")
	}
}
